/-
  Canon/Parse: the ReadFile model on a token source that delivers `fileToks ss` returns `fileOf ss`.
  All reasoning is at the token level (`Lex` / `Src`); the byte level enters only through `lex_file`.
-/
import Bebop.Text.Parser
import Bebop.Proofs.Canon.Defs

namespace Bebop.Text
namespace Canon

/-! ### token sources -/

/-- A token source delivering `l`: a clean state that lexes to `l`, or such a state after `UnNext`. -/
def Src (l : List Token) (t : TR) : Prop :=
  Lex l t ∨ ∃ t0 l', t = { t0 with keep := true } ∧ l = t0.nextTok :: l' ∧ Lex l' t0

theorem Lex.src {l : List Token} {t : TR} (h : Lex l t) : Src l t := Or.inl h

theorem Lex.unNext {l : List Token} {t : TR} (h : Lex l t) : Src (t.nextTok :: l) { t with keep := true } :=
  Or.inr ⟨t, l, rfl, rfl, h⟩

theorem Lex.unNext' {l : List Token} {t : TR} {tok : Token} (h : Lex l t) (htok : t.nextTok = tok) :
    Src (tok :: l) { t with keep := true } := by
  subst htok; exact h.unNext

theorem Src.step {tok : Token} {l : List Token} {t : TR} (h : Src (tok :: l) t) :
    ∃ t', next t = (true, t') ∧ t'.nextTok = tok ∧ Lex l t' := by
  rcases h with h | ⟨t0, l', rfl, hl, h0⟩
  · exact h.2
  · simp only [List.cons.injEq] at hl
    obtain ⟨rfl, rfl⟩ := hl
    exact ⟨t0, next_unNext t0 h0.ok.keep, rfl, h0⟩

theorem Src.stop {t : TR} (h : Src [] t) :
    ∃ t', next t = (false, t') ∧ Ok t' ∧ t'.inp = [] ∧ t'.nextTok = t.nextTok := by
  rcases h with h | ⟨t0, l', _, hl, _⟩
  · exact h.2
  · cases hl

theorem Ok.hasErr {t : TR} (h : Ok t) : hasErr t = false := by simp [Bebop.Text.hasErr, h.errs]

/-! ### the P monad -/

theorem bind_ok {α β} {m : P α} {k : α → P β} {t t' : TR} {a : α} (h : m t = .ok a t') :
    (m >>= k) t = k a t' := by
  show (match m t with | .ok a t' => k a t' | .err t' => .err t' | .fuel => .fuel | .decline t' => .decline t') = _
  rw [h]

theorem bind_bind_ok {α β γ} {m : P α} {k1 : α → P β} {k2 : β → P γ} {t t' : TR} {a : α} (h : m t = .ok a t') :
    ((m >>= k1) >>= k2) t = (k1 a >>= k2) t' := by
  show (match (m >>= k1) t with
    | .ok a t' => k2 a t' | .err t' => .err t' | .fuel => .fuel | .decline t' => .decline t') = _
  rw [bind_ok h]
  rfl

theorem bind_pNext {β} (k : Bool → P β) {t t' : TR} {r : Bool} (h : next t = (r, t')) :
    (pNext >>= k) t = k r t' := by
  apply bind_ok; simp only [pNext, h]

theorem bind_pTok {β} (k : Token → P β) (t : TR) : (pTok >>= k) t = k t.nextTok t := rfl
theorem bind_pHasErr {β} (k : Bool → P β) (t : TR) : (pHasErr >>= k) t = k (hasErr t) t := rfl
theorem bind_pUnNext {β} (k : Unit → P β) (t : TR) : (pUnNext >>= k) t = k () { t with keep := true } := rfl
theorem bind_pure {α β} (a : α) (k : α → P β) (t : TR) : ((pure a : P α) >>= k) t = k a t := rfl
theorem pure_apply {α} (a : α) (t : TR) : (pure a : P α) t = .ok a t := rfl

/-- expectSeq on the kinds of the next tokens -/
theorem expectSeq_ok : ∀ (toks : List Token) (l : List Token) (t : TR), Src (toks ++ l) t →
    ∃ t', expectSeq (toks.map (·.kind)) t = .ok toks t' ∧ Src l t'
  | [], l, t, h => ⟨t, rfl, h⟩
  | tok :: toks, l, t, h => by
    obtain ⟨t1, hn, htok, hl⟩ := h.step
    obtain ⟨t', h1, h2⟩ := expectSeq_ok toks l t1 hl.src
    refine ⟨t', ?_, h2⟩
    simp only [List.map_cons, expectSeq]
    rw [bind_pNext _ hn, bind_pHasErr, hl.ok.hasErr]
    simp only [Bool.false_eq_true, if_false, Bool.not_true, bind_pTok, htok, bne_self_eq_false]
    rw [bind_ok h1]
    rfl

theorem optNewline_ok {tok : Token} (hk : tok.kind = .newline) {l : List Token} {t : TR} (h : Src (tok :: l) t) :
    ∃ t', optNewline t = .ok () t' ∧ Lex l t' ∧ t'.nextTok = tok := by
  obtain ⟨t1, hn, htok, hl⟩ := h.step
  refine ⟨t1, ?_, hl, htok⟩
  simp only [optNewline]
  rw [bind_pNext _ hn, bind_pTok, htok, hk]
  rfl

theorem expectAnyOf_ok {ks : List TK} {tok : Token} (hk : ks.contains tok.kind = true) {l : List Token} {t : TR}
    (h : Src (tok :: l) t) : ∃ t', expectAnyOf ks t = .ok () t' ∧ Lex l t' ∧ t'.nextTok = tok := by
  obtain ⟨t1, hn, htok, hl⟩ := h.step
  refine ⟨t1, ?_, hl, htok⟩
  simp only [expectAnyOf]
  rw [bind_pNext _ hn, bind_pHasErr, hl.ok.hasErr]
  simp only [Bool.false_eq_true, if_false, Bool.not_true, bind_pTok, htok, hk, if_true]
  rfl

/-- readFieldType on a plain type name followed by something that is not `[` -/
theorem readFieldType_ok (f : Nat) {ty nm : Token} (hty : ty.kind = .ident) (hnm : nm.kind = .ident)
    {l : List Token} {t : TR} (h : Src (ty :: nm :: l) t) :
    ∃ t', readFieldType (f + 2) t = .ok (FT.simple ty.concrete) t' ∧ Src (nm :: l) t' := by
  obtain ⟨t1, h1, hl1, htok1⟩ := expectAnyOf_ok (ks := [.ident, .kArray, .kMap]) (by rw [hty]; decide) h
  obtain ⟨t2, hn2, htok2, hl2⟩ := hl1.src.step
  refine ⟨{ t2 with keep := true }, ?_, hl2.unNext' htok2⟩
  simp only [readFieldType]
  rw [bind_ok h1, bind_pTok, htok1]
  simp only [hty, bind_pure]
  rw [bind_pNext _ hn2]
  have hk2 : t2.nextTok.kind = .ident := by rw [htok2, hnm]
  have hne : (TK.ident == TK.openSquare) = false := by decide
  simp only [Bool.not_true, Bool.false_eq_true, if_false, readFieldType.suffixLoop, bind_pTok, hk2, hne]
  rfl

theorem skipEol_ok (f : Nat) {tok : Token} (hk : tok.kind = .newline) {l : List Token} {t : TR}
    (h : Src (tok :: l) t) : ∃ t', skipEolComments (f + 1) t = .ok () t' ∧ Src (tok :: l) t' ∧ t'.nextTok = tok := by
  obtain ⟨t1, hn, htok, hl⟩ := h.step
  refine ⟨{ t1 with keep := true }, ?_, hl.unNext' htok, htok⟩
  have hk1 : t1.nextTok.kind = .newline := by rw [htok, hk]
  have hne1 : (TK.newline == TK.lineComment) = false := by decide
  have hne2 : (TK.newline == TK.blockComment) = false := by decide
  simp only [skipEolComments]
  rw [bind_pNext _ hn]
  simp only [Bool.not_true, Bool.false_eq_true, if_false, bind_pTok, hk1, hne1, hne2]
  rfl

def fieldOf (f : Str × Str) : Field :=
  { ft := FT.simple f.1, name := f.2, comment := [], tags := [], depMsg := [], deprecated := false }

abbrev nlTok : Token := { kind := .newline, concrete := [10] }

theorem structLoop_ok (fuel : Nat) : ∀ (fs : List (Str × Str)) (f : Nat), 2 * fs.length + 2 ≤ f →
    ∀ (acc : List Field) (rest : List Token) (t : TR), Src (fieldToks fs rest) t → t.nextTok.kind = .newline →
    ∃ t', readStruct.loop (fuel + 2) f acc {} t = .ok (acc ++ fs.map fieldOf) t' ∧ Lex (nlTok :: rest) t'
  | [], f, hf, acc, rest, t, h, hcur => by
    obtain ⟨f, rfl⟩ : ∃ g, f = g + 2 := ⟨f - 2, by simp at hf; omega⟩
    simp only [fieldToks] at h
    obtain ⟨t1, hn, htok, hl⟩ := h.step
    refine ⟨t1, ?_, hl⟩
    have hk1 : t1.nextTok.kind = .closeCurly := by rw [htok]
    have hne : (TK.newline == TK.closeCurly) = false := by decide
    rw [show f + 2 = (f + 1) + 1 from rfl, readStruct.loop]
    simp only [bind_pTok, hcur, hne, Bool.false_eq_true, if_false]
    rw [bind_pNext _ hn]
    simp only [Bool.not_true, Bool.false_eq_true, if_false, bind_pTok, hk1]
    rw [readStruct.loop]
    simp only [bind_pTok, hk1, beq_self_eq_true, if_true, List.map_nil, List.append_nil]
    rfl
  | fd :: fs, f, hf, acc, rest, t, h, hcur => by
    obtain ⟨f, rfl⟩ : ∃ g, f = g + 2 := ⟨f - 2, by simp at hf; omega⟩
    simp only [fieldToks] at h
    obtain ⟨t1, hn, htok, hl⟩ := h.step
    have hk1 : t1.nextTok.kind = .ident := by rw [htok]
    have hsrc1 := hl.unNext' htok
    obtain ⟨t2, h2, hsrc2⟩ := readFieldType_ok fuel (ty := { kind := .ident, concrete := fd.1 })
      (nm := { kind := .ident, concrete := fd.2 }) rfl rfl hsrc1
    obtain ⟨t3, h3, hsrc3⟩ := expectSeq_ok [{ kind := .ident, concrete := fd.2 }, { kind := .semicolon, concrete := [59] }]
      _ t2 hsrc2
    obtain ⟨t4, h4, hsrc4, htok4⟩ := skipEol_ok (fuel + 1) (tok := { kind := .newline, concrete := [10] }) rfl hsrc3
    obtain ⟨t5, hn5, htok5, hl5⟩ := hsrc4.step
    have hk4 : t4.nextTok.kind = .newline := by rw [htok4]
    have hk5 : t5.nextTok.kind = .newline := by rw [htok5]
    obtain ⟨t', h6, hl6⟩ := structLoop_ok fuel fs f (by simp at hf; omega) (acc ++ [fieldOf fd]) rest t5 hl5.src hk5
    refine ⟨t', ?_, hl6⟩
    have hne : (TK.newline == TK.closeCurly) = false := by decide
    rw [show f + 2 = (f + 1) + 1 from rfl, readStruct.loop]
    simp only [bind_pTok, hcur, hne, Bool.false_eq_true, if_false]
    rw [bind_pNext _ hn]
    simp only [Bool.not_true, Bool.false_eq_true, if_false, bind_pTok, hk1, bind_pUnNext]
    rw [bind_ok h2]
    simp only [List.map_cons, List.map_nil] at h3
    rw [bind_ok h3, bind_ok h4]
    rw [readStruct.loop]
    simp only [bind_pTok, hk4, hne, Bool.false_eq_true, if_false]
    rw [bind_pNext _ hn5]
    simp only [Bool.not_true, Bool.false_eq_true, if_false, bind_pTok, hk5]
    simp only [List.append_assoc, List.singleton_append] at h6
    exact h6

theorem readStruct_ok (fuel : Nat) (s : CStruct) (hf : 2 * s.fields.length ≤ fuel) (rest : List Token) (t : TR)
    (h : Src ({ kind := .ident, concrete := s.name } :: { kind := .openCurly, concrete := [123] } ::
      { kind := .newline, concrete := [10] } :: fieldToks s.fields rest) t) :
    ∃ t', readStruct (fuel + 2) t = .ok { name := s.name, fields := s.fields.map fieldOf } t' ∧
      Lex (nlTok :: rest) t' := by
  obtain ⟨t1, h1, hsrc1⟩ := expectSeq_ok [{ kind := .ident, concrete := s.name }, { kind := .openCurly, concrete := [123] }]
    _ t h
  obtain ⟨t2, h2, hl2, htok2⟩ := optNewline_ok (tok := { kind := .newline, concrete := [10] }) rfl hsrc1
  obtain ⟨t', h3, hl3⟩ := structLoop_ok fuel s.fields (fuel + 2) (by omega) [] rest t2 hl2.src (by rw [htok2])
  refine ⟨t', ?_, hl3⟩
  simp only [List.map_cons, List.map_nil] at h1
  simp only [readStruct]
  rw [bind_ok h1, bind_ok h2, bind_ok h3]
  rfl

/-- the loop state of ReadFile between two definitions, with nothing pending -/
abbrev topSt (F : File) : TopSt := { file := F }

theorem loop_nl (fuel f : Nat) (F : File) {rest : List Token} {t : TR} (h : Src (nlTok :: rest) t) :
    ∃ t', Lex rest t' ∧ readFileLoop fuel (f + 1) (topSt F) t = readFileLoop fuel f (topSt F) t' := by
  obtain ⟨t1, hn, htok, hl⟩ := h.step
  refine ⟨t1, hl, ?_⟩
  have hk : t1.nextTok.kind = .newline := by rw [htok]
  rw [readFileLoop, bind_pNext _ hn]
  simp only [Bool.not_true, Bool.false_eq_true, if_false, bind_pTok, stepTop, hk, bind_pure]

theorem loop_end (fuel f : Nat) (st : TopSt) {t : TR} (h : Src [] t) :
    ∃ t', Ok t' ∧ readFileLoop fuel (f + 1) st t = .ok st.file t' := by
  obtain ⟨t1, hn, hok, _, _⟩ := h.stop
  refine ⟨t1, hok, ?_⟩
  rw [readFileLoop, bind_pNext _ hn]
  simp only [Bool.not_false, if_true, bind_pHasErr, hok.hasErr, Bool.false_eq_true, if_false]
  rfl

theorem loop_struct (fuel f : Nat) (F : File) (s : CStruct) (hf : 2 * s.fields.length ≤ fuel)
    {rest : List Token} {t : TR} (h : Src (structToks s rest) t) :
    ∃ t', Lex rest t' ∧ readFileLoop (fuel + 2) (f + 2) (topSt F) t =
      readFileLoop (fuel + 2) f (topSt { F with structs := F.structs ++ [cstructOf s] }) t' := by
  simp only [structToks] at h
  obtain ⟨t1, hn, htok, hl⟩ := h.step
  obtain ⟨t2, h2, hl2⟩ := readStruct_ok fuel s hf rest t1 hl.src
  obtain ⟨t3, hl3, h3⟩ := loop_nl (fuel + 2) f { F with structs := F.structs ++ [cstructOf s] } hl2.src
  refine ⟨t3, hl3, ?_⟩
  have hk : t1.nextTok.kind = .kStruct := by rw [htok]
  rw [← h3, show f + 2 = (f + 1) + 1 from rfl, readFileLoop, bind_pNext _ hn]
  simp only [Bool.not_true, Bool.false_eq_true, if_false, bind_pTok, stepTop, hk]
  rw [bind_bind_ok h2, bind_pure]
  rfl

theorem loop_tail (fuel : Nat) : ∀ (ss : List CStruct) (f : Nat) (F : File) (t : TR), 3 * ss.length + 1 ≤ f →
    (∀ s ∈ ss, 2 * s.fields.length ≤ fuel) → Src (tailToks ss) t →
    ∃ t', Ok t' ∧ readFileLoop (fuel + 2) f (topSt F) t =
      .ok { F with structs := F.structs ++ ss.map cstructOf } t'
  | [], f, F, t, hf, _, h => by
    obtain ⟨f, rfl⟩ : ∃ g, f = g + 1 := ⟨f - 1, by omega⟩
    obtain ⟨t', hok, he⟩ := loop_end (fuel + 2) f (topSt F) h
    refine ⟨t', hok, ?_⟩
    rw [he]; simp
  | s :: ss, f, F, t, hf, hfu, h => by
    obtain ⟨f, rfl⟩ : ∃ g, f = g + 3 := ⟨f - 3, by simp at hf; omega⟩
    simp only [tailToks] at h
    obtain ⟨t1, hl1, h1⟩ := loop_nl (fuel + 2) (f + 2) F h
    obtain ⟨t2, hl2, h2⟩ := loop_struct fuel f F s (hfu s (List.mem_cons_self)) hl1.src
    obtain ⟨t', hok, h3⟩ := loop_tail fuel ss f { F with structs := F.structs ++ [cstructOf s] } t2
      (by simp at hf; omega) (fun x hx => hfu x (List.mem_cons_of_mem _ hx)) hl2.src
    refine ⟨t', hok, ?_⟩
    rw [h1, h2, h3]
    simp

/-- ReadFile's loop on a token source that delivers the tokens of `ss`. -/
theorem loop_file (fuel : Nat) (ss : List CStruct) (f : Nat) (t : TR) (hf : 3 * ss.length + 1 ≤ f)
    (hfu : ∀ s ∈ ss, 2 * s.fields.length ≤ fuel) (h : Src (fileToks ss) t) :
    ∃ t', Ok t' ∧ readFileLoop (fuel + 2) f {} t = .ok (fileOf ss) t' := by
  cases ss with
  | nil =>
    obtain ⟨f, rfl⟩ : ∃ g, f = g + 1 := ⟨f - 1, by omega⟩
    exact loop_end (fuel + 2) f {} h
  | cons s ss =>
    obtain ⟨f, rfl⟩ : ∃ g, f = g + 2 := ⟨f - 2, by simp at hf; omega⟩
    simp only [fileToks] at h
    obtain ⟨t2, hl2, h2⟩ := loop_struct fuel f {} s (hfu s (List.mem_cons_self)) h
    obtain ⟨t', hok, h3⟩ := loop_tail fuel ss f { ({} : File) with structs := ({} : File).structs ++ [cstructOf s] } t2
      (by simp at hf; omega) (fun x hx => hfu x (List.mem_cons_of_mem _ hx)) hl2.src
    refine ⟨t', hok, ?_⟩
    show readFileLoop (fuel + 2) (f + 2) (topSt {}) t = _
    rw [h2, h3]
    simp [fileOf]

/-! ### the fuel ReadFile supplies is enough -/

def wt : List CStruct → Nat
  | [] => 0
  | s :: ss => s.fields.length + 2 + wt ss

theorem wt_mem : ∀ {ss : List CStruct} {s : CStruct}, s ∈ ss → s.fields.length + 2 ≤ wt ss
  | x :: ss, s, h => by
    rcases List.mem_cons.1 h with rfl | h
    · simp [wt]
    · have := wt_mem h; simp [wt]; omega

theorem wt_len : ∀ (ss : List CStruct), 2 * ss.length ≤ wt ss
  | [] => by simp [wt]
  | s :: ss => by have := wt_len ss; simp [wt]; omega

theorem layFields_len : ∀ (fs : List (Str × Str)) (v : Nat → Nat → List Byte) (rest : List Byte),
    fs.length + 2 + rest.length ≤ (layFields v fs rest).length
  | [], v, rest => by simp [layFields]; omega
  | f :: fs, v, rest => by
    have := layFields_len fs (fun j => v (j + 1)) rest
    simp [layFields]; omega

theorem layStruct_len (v : Nat → Nat → List Byte) (s : CStruct) (rest : List Byte) :
    s.fields.length + 2 + rest.length ≤ (layStruct v s rest).length := by
  have := layFields_len s.fields (fun j => v (j + 1)) rest
  simp [layStruct]; omega

theorem layTail_len : ∀ (ss : List CStruct) (w : CLay), wt ss ≤ (layTail w ss).length
  | [], w => by simp [wt]
  | s :: ss, w => by
    have h1 := layTail_len ss (fun i => w (i + 1))
    have h2 := layStruct_len (w 0) s (layTail (fun i => w (i + 1)) ss)
    simp [layTail, wt]; omega

theorem laidOut_len (ss : List CStruct) (w : CLay) : wt ss ≤ (laidOut w ss).length := by
  cases ss with
  | nil => simp [wt]
  | cons s ss =>
    have h1 := layTail_len ss (fun i => w (i + 1))
    have h2 := layStruct_len (w 0) s (layTail (fun i => w (i + 1)) ss)
    simp [laidOut, wt]; omega

theorem mkTR_ok (inp : List Byte) : Ok (mkTR inp false) := ⟨rfl, rfl, rfl, rfl, rfl⟩

/-- ReadFile returns exactly `fileOf ss` on every laid-out text of a well-formed schema. -/
theorem readFile_laidOut (ss : List CStruct) (w : CLay) (hw : LayOk w) (hs : ∀ s ∈ ss, CStructOk s) :
    readFile (laidOut w ss) false = .ok (fileOf ss) := by
  have hlex := lex_file ss w hw hs (mkTR (laidOut w ss) false) (mkTR_ok _) rfl
  have hlen := laidOut_len ss w
  have hl2 := wt_len ss
  obtain ⟨t', hok, h⟩ := loop_file (2 * (laidOut w ss).length + 2) ss (2 * (laidOut w ss).length + 4)
    (mkTR (laidOut w ss) false) (by omega) (fun s hs' => by have := wt_mem hs'; omega) hlex.src
  unfold readFile
  simp only [h, hok.pan, hok.na, Bool.false_eq_true, if_false]

end Canon
end Bebop.Text
