/-
  Gen: seeded random generator of well-formed schema sources (SrcFile) for the correspondence runs.
  Test-input generation only: nothing here is part of the model or of the Spec.
-/
import Bebop.Text.Grammar
import Bebop.Text.Dump

open Bebop.Text
open Bebop (ofLe)

namespace Driver.Gen

structure G where
  seed : Nat
  safe : Bool := false             -- avoid the constructs the formatter is known to mangle
  types : List (Str × Nat) := []   -- defined type names, kind: 0 enum, 1 struct, 2 message, 3 union
  counter : Nat := 0
  opcodes : List Nat := []

abbrev M := StateM G

def rnd (n : Nat) : M Nat := do
  let g ← get
  let s := (g.seed * 6364136223846793005 + 1442695040888963407) % (2 ^ 64)
  set { g with seed := s }
  pure ((s / 2 ^ 33) % (max n 1))

def coin (num den : Nat) : M Bool := do pure ((← rnd den) < num)

def fresh (pfx : String) : M Str := do
  let g ← get
  set { g with counter := g.counter + 1 }
  pure (strOf (pfx ++ toString g.counter))

def pickL {α} [Inhabited α] (l : List α) : M α := do
  let i ← rnd l.length
  pure (l.getD i default)

def prims : List String := ["bool", "byte", "uint8", "uint16", "int16", "uint32", "int32", "uint64", "int64",
  "float32", "float64", "string", "guid", "date"]

def textChars : List Nat := [32, 33, 35, 36, 39, 40, 41, 43, 44, 45, 46, 48, 49, 57, 58, 59, 60, 61, 62, 63, 64,
  65, 66, 90, 91, 93, 95, 97, 98, 122, 123, 124, 125, 126, 42, 47]

def genText (maxLen : Nat) (extra : List Nat) : M Str := do
  let n ← rnd (maxLen + 1)
  let mut out : Str := []
  for _ in [0:n] do
    let c ← pickL (textChars ++ extra)
    out := out ++ [UInt8.ofNat c]
  pure out

/-- text of a `//` comment: no line ends, does not look like a tag -/
def genLineText : M Str := do
  let t ← genText 12 [9, 34, 92]
  pure (if t.take 5 == strOf "[tag(" then 32 :: t else t)

/-- text of a `/* */` comment: may span lines; never contains `*/` -/
def genBlockText : M Str := do
  let t ← genText 14 [10, 34, 92]
  let rec fix (l : Str) : Str :=
    match l with
    | 42 :: 47 :: r => 42 :: 32 :: 47 :: fix r
    | c :: r => c :: fix r
    | [] => []
  pure (fix t)

def genPlain (maxLen : Nat) : M Str := do
  let n ← rnd (maxLen + 1)
  let mut out : Str := []
  for _ in [0:n] do
    let c ← pickL [32, 33, 35, 45, 46, 47, 48, 57, 58, 65, 90, 95, 97, 122, 126]
    out := out ++ [UInt8.ofNat c]
  pure out

def genDoc (allowTags : Bool) : M (List Seg) := do
  let n ← rnd 4
  let n := if n == 3 then 2 else if n == 2 then 1 else 0
  let mut out : List Seg := []
  for _ in [0:n] do
    let k ← rnd (if allowTags then 4 else 3)
    if k == 0 then out := out ++ [Seg.block (← genBlockText)]
    else if k == 3 then
      let key ← pickL ["json", "db", "xml", "k"]
      if (← coin 1 3) then out := out ++ [Seg.tag { key := strOf key, value := [], boolean := true }]
      else out := out ++ [Seg.tag { key := strOf key, value := (← genPlain 8).filter (· != 58), boolean := false }]
    else out := out ++ [Seg.line (← genLineText)]
  pure out

def genDeprecated : M (Option Str) := do
  if (← coin 1 6) then pure (some (← genPlain 10)) else pure none

partial def genFT (depth : Nat) (allowKinds : List Nat) : M FT := do
  let k ← rnd (if depth == 0 then 2 else 5)
  let g ← get
  let usable := g.types.filter (fun t => allowKinds.contains t.2)
  if k == 2 || k == 3 then
    let inner ← genFT (depth - 1) allowKinds
    match inner, g.safe with
    | .arr _, true => pure inner
    | _, _ => pure (FT.arr inner)
  else if k == 4 then
    let key ← pickL prims
    pure (FT.map (strOf key) (← genFT (depth - 1) allowKinds))
  else if k == 1 && !usable.isEmpty then
    pure (FT.simple (← pickL usable).1)
  else
    pure (FT.simple (strOf (← pickL prims)))

def genField (allowKinds : List Nat) : M SrcField := do
  let ft ← genFT 2 allowKinds
  let name ← fresh "f"
  let doc ← genDoc true
  let dep ← genDeprecated
  let tr ← if (← coin 1 5) then pure (some (← genLineText)) else pure none
  pure { ft := ft, name := name, doc := doc, deprecated := dep, trailing := tr }

def natLit (v : Nat) : M Str := do
  if (← coin 1 3) then
    let rec hex (n : Nat) (fuel : Nat) (acc : List Char) : List Char :=
      match fuel with
      | 0 => acc
      | f+1 => if n < 16 then hexDigitC n :: acc else hex (n / 16) f (hexDigitC (n % 16) :: acc)
    pure (strOf ("0x" ++ String.ofList (hex v 20 [])))
  else pure (strOf (toString v))

def genOpCode : M (Option Str) := do
  if !(← coin 1 4) then return none
  let g ← get
  if (← coin 1 2) then
    let v := (← rnd 100000) + 1
    if g.opcodes.contains v then return none
    set { g with opcodes := v :: g.opcodes }
    pure (some (← natLit v))
  else
    let cs ← (List.range 4).mapM (fun _ => pickL [65, 66, 67, 90, 97, 122, 48, 57])
    let v := ofLe (cs.map UInt8.ofNat)
    if g.opcodes.contains v then return none
    set { g with opcodes := v :: g.opcodes }
    pure (some ([34] ++ cs.map UInt8.ofNat ++ [34]))

def register (name : Str) (kind : Nat) : M Unit := modify fun g => { g with types := g.types ++ [(name, kind)] }

def genStructBody (n : Nat) : M (List SrcField) := do
  let mut fs := []
  for _ in [0:n] do
    -- struct fields may use enums, structs, messages and unions defined earlier
    fs := fs ++ [← genField [0, 1, 2, 3]]
  pure fs

def genStruct (top : Bool) : M SrcStruct := do
  let name ← fresh "T"
  let n ← rnd 5
  let fields ← genStructBody n
  let doc ← if top then genDoc false else pure []
  let oc ← if top then genOpCode else pure none
  let ro ← if top then coin 1 5 else pure false
  pure { name := name, doc := doc, opCode := oc, readOnly := ro, fields := fields }

def genMessage (top : Bool) : M SrcMessage := do
  let name ← fresh "T"
  let n ← rnd 5
  let mut fs : List (Nat × SrcField) := []
  let mut idx := 0
  for _ in [0:n] do
    idx := idx + 1 + (← rnd 3)
    fs := fs ++ [(idx, ← genField [0, 1, 2, 3])]
  let doc ← if top then genDoc false else pure []
  let oc ← if top then genOpCode else pure none
  pure { name := name, doc := doc, opCode := oc, fields := fs }

def genUnion : M SrcUnion := do
  let name ← fresh "T"
  let n := (← rnd 3) + 1
  let mut fs : List SrcUnionField := []
  let mut idx := 0
  for _ in [0:n] do
    idx := idx + 1 + (← rnd 2)
    let body ← if (← coin 1 2) then (do pure (SrcBranch.st (← genStruct false))) else (do pure (SrcBranch.msg (← genMessage false)))
    let doc ← genDoc false
    fs := fs ++ [{ idx := idx, doc := doc, deprecated := (← genDeprecated), body := body }]
  let doc ← genDoc false
  let oc ← genOpCode
  pure { name := name, doc := doc, opCode := oc, fields := fs }

def bases : List String := ["byte", "uint8", "uint16", "uint32", "uint64", "int16", "int32", "int64"]

def genEnum : M SrcEnum := do
  let name ← fresh "T"
  let g ← get
  let base ← if g.safe || (← coin 1 2) then pure none else (do pure (some (strOf (← pickL bases))))
  let (_, bits, unsigned) := baseInfo base
  let flags ← if g.safe then pure false else coin 1 3
  let n := (← rnd 5) + 1
  let mut opts : List SrcOption := []
  let mut used : List Int := []
  for i in [0:n] do
    let oname ← fresh "M"
    let doc ← genDoc false
    let dep ← genDeprecated
    if flags then
      -- small expressions over literals and earlier members, kept inside the base type
      let lim := min bits 15
      let a ← rnd (2 ^ (lim / 2))
      let sh ← rnd (lim / 2)
      let mut e : SrcExpr := .bin 2 (.lit (← natLit (a + 1))) (.lit (strOf (toString sh)))
      if i > 0 && (← coin 1 2) then
        let prev ← pickL opts
        e := .bin (← rnd 2) (.ref prev.name) (if (← coin 1 2) then .paren e else e)
      if (← coin 1 4) then e := .lit (← natLit i)
      -- values must be distinct for the validator: retry with a plain literal when they collide
      let env := (opts.map (fun o => o.name)).zip used
      let v := (specEval env e).getD 0
      if used.contains v || !inRange bits unsigned v then
        let fallback : Int := ((used.foldl (fun m x => max m x) 0) + 1)
        e := .lit (strOf (toString fallback))
        used := used ++ [fallback]
      else used := used ++ [v]
      opts := opts ++ [{ name := oname, doc := doc, deprecated := dep, expr := e }]
    else
      let neg ← if unsigned then pure false else coin 1 3
      let mag := (i * 7 + (← rnd 5)) % (2 ^ (bits - 1))
      let v : Int := if neg then -(mag : Int) - 1 else mag
      let v := if used.contains v then (used.foldl (fun m x => max m x) 0) + 1 else v
      used := used ++ [v]
      let text ← if v < 0 then pure (strOf (toString v)) else natLit v.toNat
      opts := opts ++ [{ name := oname, doc := doc, deprecated := dep, expr := .lit text }]
  let doc ← genDoc false
  pure { name := name, doc := doc, base := base, flags := flags, options := opts }

def genConst : M SrcConst := do
  let name ← fresh "c"
  let ty ← pickL (prims.filter (· != "date"))
  let lit ← (
    if ty == "bool" then (do pure (strOf (if (← coin 1 2) then "true" else "false")))
    else if ty == "string" then (do pure ([34] ++ (← genPlain 10) ++ [34]))
    else if ty == "guid" then (do
      let hs ← (List.range 32).mapM (fun _ => do pure (hexDigitC (← rnd 16)))
      let s := String.ofList hs
      let g := if (← coin 1 2) then s else
        String.ofList (hs.take 8) ++ "-" ++ String.ofList ((hs.drop 8).take 4) ++ "-" ++ String.ofList ((hs.drop 12).take 4) ++ "-" ++
          String.ofList ((hs.drop 16).take 4) ++ "-" ++ String.ofList (hs.drop 20)
      pure ([34] ++ strOf g ++ [34]))
    else if ty == "float32" || ty == "float64" then (do
      let k ← rnd 6
      if k == 0 then pure (strOf "inf") else if k == 1 then pure (strOf "-inf") else if k == 2 then pure (strOf "nan")
      else if k == 3 then pure (strOf (toString (← rnd 1000)))
      else pure (strOf ((if (← coin 1 2) then "-" else "") ++ toString (← rnd 1000) ++ "." ++ toString (← rnd 1000))))
    else (do
      let (bits, unsigned) := (decodeInteger (strOf ty)).getD (32, true)
      let mag ← rnd (2 ^ (bits - 1))
      if !unsigned && (← coin 1 3) then pure (strOf ("-" ++ toString mag)) else natLit mag) : M Str)
  let doc ← genDoc false
  pure { ty := strOf ty, name := name, doc := doc, lit := lit }

/-- A well-formed schema of about `size` definitions; `withImports`: also `import` lines (parse only). -/
def genFile (size : Nat) (withImports : Bool) : M SrcFile := do
  let mut out : SrcFile := []
  if withImports && (← coin 1 2) then
    out := out ++ [SrcDef.imp (strOf "./other.bop")]
  for _ in [0:size] do
    let k ← rnd 6
    if k == 0 then
      let e ← genEnum
      register e.name 0
      out := out ++ [SrcDef.enm e]
    else if k == 1 || k == 5 then
      let s ← genStruct true
      register s.name 1
      out := out ++ [SrcDef.st s]
    else if k == 2 then
      let m ← genMessage true
      register m.name 2
      out := out ++ [SrcDef.msg m]
    else if k == 3 then
      let u ← genUnion
      register u.name 3
      out := out ++ [SrcDef.un u]
    else
      out := out ++ [SrcDef.con (← genConst)]
  pure out

def run {α} (seed : Nat) (safe : Bool) (m : M α) : α := (m.run { seed := seed, safe := safe }).1

/-- the layout stream for a seed -/
def layoutOf (seed : Nat) : Nat → Nat := fun i =>
  let s := ((seed + 1) * 2862933555777941757 + i * 3037000493 + 7) % (2 ^ 64)
  let s := (s * 6364136223846793005 + 1442695040888963407) % (2 ^ 64)
  s / 2 ^ 35

end Driver.Gen

namespace Driver.Gen

/-! ### single semantic-error injections (C13) -/

def setAt {α} (l : List α) (i : Nat) (f : α → α) : List α :=
  l.zipIdx.map (fun (a, j) => if j == i then f a else a)

def defName : SrcDef → Option Str
  | .enm e => some e.name | .st s => some s.name | .msg m => some m.name | .un u => some u.name | _ => none

def renameDef (d : SrcDef) (n : Str) : SrcDef :=
  match d with
  | .enm e => .enm { e with name := n } | .st s => .st { s with name := n }
  | .msg m => .msg { m with name := n } | .un u => .un { u with name := n } | d => d

def idxWhere {α} (l : List α) (p : α → Bool) : List Nat := (l.zipIdx.filter (fun (a, _) => p a)).map (·.2)

/-- Replace the innermost simple type by `n`, or (when `key`) a map key. -/
partial def poisonFT (ft : FT) (n : Str) : FT :=
  match ft with
  | .simple _ => .simple n
  | .arr e => .arr (poisonFT e n)
  | .map k v => .map k (poisonFT v n)

def classes : List String := ["dupDefName", "primitiveName", "dupConstName", "dupStructField", "dupMessageField",
  "dupOptionName", "dupOptionValue", "dupOpCode", "undefStructField", "undefMessageField", "undefUnionBranchField",
  "undefMapKey", "selfStruct", "chainStruct", "dupMsgIndex", "msgIndexZero", "dupUnionIndex", "enumOutOfRange",
  "flagsOutOfRange", "constNotAssignable", "constOutOfRange", "okRecursionViaMessage", "okRecursionViaUnion",
  "selfStructDeprecated", "chainStructDeprecated", "flagsShiftOverflow"]

/-- Inject one error of class `cls` into a valid source; `none` when the source has no applicable site. -/
def inject (cls : String) (src : SrcFile) : M (Option SrcFile) := do
  let named := idxWhere src (fun d => (defName d).isSome)
  let structs := idxWhere src (fun d => match d with | .st s => s.fields.length ≥ 1 | _ => false)
  let msgs := idxWhere src (fun d => match d with | .msg m => m.fields.length ≥ 1 | _ => false)
  let bad := strOf "Undefined9"
  match cls with
  | "dupDefName" =>
    if named.length < 2 then return none
    let i ← pickL named
    let j ← pickL (named.filter (· != i))
    let n := ((src.getD j default) |> defName).getD []
    pure (some (setAt src i (fun d => renameDef d n)))
  | "primitiveName" =>
    if named.isEmpty then return none
    let i ← pickL named
    let p ← pickL prims
    pure (some (setAt src i (fun d => renameDef d (strOf p))))
  | "dupConstName" =>
    let cs := idxWhere src (fun d => match d with | .con _ => true | _ => false)
    if cs.length < 2 then return none
    let i ← pickL cs
    let j ← pickL (cs.filter (· != i))
    let n := match src.getD j default with | .con c => c.name | _ => []
    pure (some (setAt src i (fun d => match d with | .con c => .con { c with name := n } | d => d)))
  | "dupStructField" =>
    let ss := idxWhere src (fun d => match d with | .st s => s.fields.length ≥ 2 | _ => false)
    if ss.isEmpty then return none
    let i ← pickL ss
    pure (some (setAt src i (fun d => match d with
      | .st s => .st { s with fields := setAt s.fields 1 (fun f => { f with name := (s.fields.headD default).name }) }
      | d => d)))
  | "dupMessageField" =>
    let ms := idxWhere src (fun d => match d with | .msg m => m.fields.length ≥ 2 | _ => false)
    if ms.isEmpty then return none
    let i ← pickL ms
    pure (some (setAt src i (fun d => match d with
      | .msg m => .msg { m with fields := setAt m.fields 1 (fun p => (p.1, { p.2 with name := (m.fields.headD default).2.name })) }
      | d => d)))
  | "dupOptionName" | "dupOptionValue" =>
    let es := idxWhere src (fun d => match d with | .enm e => e.options.length ≥ 2 && !e.flags | _ => false)
    if es.isEmpty then return none
    let i ← pickL es
    pure (some (setAt src i (fun d => match d with
      | .enm e =>
        let o0 := e.options.headD default
        .enm { e with options := setAt e.options 1 (fun o => if cls == "dupOptionName" then { o with name := o0.name } else { o with expr := o0.expr }) }
      | d => d)))
  | "dupOpCode" =>
    let rs := idxWhere src (fun d => match d with | .st _ | .msg _ | .un _ => true | _ => false)
    if rs.length < 2 then return none
    let i ← pickL rs
    let j ← pickL (rs.filter (· != i))
    let oc := some (strOf "0x7777")
    let set := fun (d : SrcDef) => match d with
      | .st s => SrcDef.st { s with opCode := oc } | .msg m => .msg { m with opCode := oc }
      | .un u => .un { u with opCode := oc } | d => d
    pure (some (setAt (setAt src i set) j set))
  | "undefStructField" =>
    if structs.isEmpty then return none
    let i ← pickL structs
    pure (some (setAt src i (fun d => match d with
      | .st s => .st { s with fields := setAt s.fields 0 (fun f => { f with ft := poisonFT f.ft bad }) } | d => d)))
  | "undefMessageField" =>
    if msgs.isEmpty then return none
    let i ← pickL msgs
    pure (some (setAt src i (fun d => match d with
      | .msg m => .msg { m with fields := setAt m.fields 0 (fun p => (p.1, { p.2 with ft := poisonFT p.2.ft bad })) } | d => d)))
  | "undefUnionBranchField" =>
    let us := idxWhere src (fun d => match d with
      | .un u => u.fields.any (fun uf => match uf.body with | .st s => s.fields.length ≥ 1 | .msg m => m.fields.length ≥ 1)
      | _ => false)
    if us.isEmpty then return none
    let i ← pickL us
    pure (some (setAt src i (fun d => match d with
      | .un u => .un { u with fields := u.fields.map (fun uf => { uf with body := match uf.body with
          | .st s => .st { s with fields := setAt s.fields 0 (fun f => { f with ft := poisonFT f.ft bad }) }
          | .msg m => .msg { m with fields := setAt m.fields 0 (fun p => (p.1, { p.2 with ft := poisonFT p.2.ft bad })) } }) }
      | d => d)))
  | "undefMapKey" =>
    if structs.isEmpty then return none
    let i ← pickL structs
    pure (some (setAt src i (fun d => match d with
      | .st s => .st { s with fields := setAt s.fields 0 (fun f => { f with ft := .map bad (.simple (strOf "int32")) }) } | d => d)))
  | "selfStruct" =>
    let ss := idxWhere src (fun d => match d with | .st _ => true | _ => false)
    if ss.isEmpty then return none
    let i ← pickL ss
    pure (some (setAt src i (fun d => match d with
      | .st s => .st { s with fields := s.fields ++ [{ ft := .simple s.name, name := strOf "selfRef" }] } | d => d)))
  | "selfStructDeprecated" =>
    -- the self reference sits in a [deprecated] field: the struct still contains itself
    let ss := idxWhere src (fun d => match d with | .st _ => true | _ => false)
    if ss.isEmpty then return none
    let i ← pickL ss
    pure (some (setAt src i (fun d => match d with
      | .st s => .st { s with fields := s.fields ++ [{ ft := .simple s.name, name := strOf "selfRef", deprecated := some (strOf "old") }] } | d => d)))
  | "chainStruct" | "chainStructDeprecated" =>
    let ss := idxWhere src (fun d => match d with | .st _ => true | _ => false)
    if ss.length < 2 then return none
    let i := ss.headD 0
    let j := (ss.drop 1).headD 0
    let ni := ((src.getD i default) |> defName).getD []
    let nj := ((src.getD j default) |> defName).getD []
    let add := fun (n : Str) (dep : Bool) (d : SrcDef) => match d with
      | .st s => SrcDef.st { s with fields := s.fields ++ [{ ft := .simple n, name := strOf "chainRef", deprecated := if dep then some (strOf "old") else none }] } | d => d
    pure (some (setAt (setAt src i (add nj (cls == "chainStructDeprecated"))) j (add ni false)))
  | "dupMsgIndex" | "msgIndexZero" =>
    let ms := idxWhere src (fun d => match d with | .msg m => m.fields.length ≥ 2 | _ => false)
    if ms.isEmpty then return none
    let i ← pickL ms
    pure (some (setAt src i (fun d => match d with
      | .msg m => .msg { m with fields := setAt m.fields 1 (fun p => ((if cls == "msgIndexZero" then 0 else (m.fields.headD default).1), p.2)) }
      | d => d)))
  | "dupUnionIndex" =>
    let us := idxWhere src (fun d => match d with | .un u => u.fields.length ≥ 2 | _ => false)
    if us.isEmpty then return none
    let i ← pickL us
    pure (some (setAt src i (fun d => match d with
      | .un u => .un { u with fields := setAt u.fields 1 (fun uf => { uf with idx := (u.fields.headD default).idx }) }
      | d => d)))
  | "enumOutOfRange" | "flagsOutOfRange" =>
    let wantFlags := cls == "flagsOutOfRange"
    let es := idxWhere src (fun d => match d with
      | .enm e => e.options.length ≥ 1 && e.flags == wantFlags && !((baseInfo e.base).2.1 == 64 && (baseInfo e.base).2.2)
      | _ => false)
    if es.isEmpty then return none
    let i ← pickL es
    pure (some (setAt src i (fun d => match d with
      | .enm e =>
        let (_, bits, unsigned) := baseInfo e.base
        let big : Nat := if unsigned then 2 ^ bits else 2 ^ (bits - 1)
        if bits == 64 && unsigned then .enm e
        else .enm { e with options := setAt e.options 0 (fun o => { o with expr := .lit (strOf (toString big)) }) }
      | d => d)))
  | "flagsShiftOverflow" =>
    -- `3 << (bits-1)`: the shift count is below the width but a set bit is pushed out of the base type
    let es := idxWhere src (fun d => match d with
      | .enm e => e.options.length ≥ 1 && e.flags && (baseInfo e.base).2.2
      | _ => false)
    if es.isEmpty then return none
    let i ← pickL es
    pure (some (setAt src i (fun d => match d with
      | .enm e =>
        let (_, bits, _) := baseInfo e.base
        .enm { e with options := setAt e.options 0 (fun o => { o with expr := .bin 2 (.lit (strOf "3")) (.lit (strOf (toString (bits - 1)))) }) }
      | d => d)))
  | "constNotAssignable" | "constOutOfRange" =>
    let cs := idxWhere src (fun d => match d with
      | .con c => (isUintName c.ty || isIntName c.ty) && (cls == "constNotAssignable" || ((decodeInteger c.ty).getD (32, true)).1 != 64)
      | _ => false)
    if cs.isEmpty then return none
    let i ← pickL cs
    pure (some (setAt src i (fun d => match d with
      | .con c =>
        if cls == "constNotAssignable" then .con { c with lit := strOf "\"text\"" }
        else
          let (bits, _) := (decodeInteger c.ty).getD (32, true)
          if bits == 64 then .con c else .con { c with lit := strOf (toString (2 ^ bits)) }
      | d => d)))
  | "okRecursionViaMessage" =>
    -- struct S { M m; }  message M { 1 -> S s; } : can terminate, must be accepted
    let s := strOf "RecS"; let m := strOf "RecM"
    pure (some (src ++ [
      SrcDef.st { name := s, fields := [{ ft := .simple m, name := strOf "m" }] },
      SrcDef.msg { name := m, fields := [(1, { ft := .simple s, name := strOf "s" })] }]))
  | "okRecursionViaUnion" =>
    let s := strOf "RecS2"; let u := strOf "RecU"
    pure (some (src ++ [
      SrcDef.st { name := s, fields := [{ ft := .arr (.simple u), name := strOf "u" }] },
      SrcDef.un { name := u, fields := [{ idx := 1, body := .st { name := strOf "RecB", fields := [{ ft := .simple s, name := strOf "s" }] } }] }]))
  | _ => pure none

end Driver.Gen
