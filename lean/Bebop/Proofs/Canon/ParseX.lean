/-
  Canon/ParseX: the ReadFile model on the token list of a schema of the extended sub-language returns
  the `File` the schema denotes.
-/
import Bebop.Proofs.Canon.Parse
import Bebop.Proofs.Canon.LangWF

namespace Bebop.Text
namespace Canon

theorem bind_bind_pTok {β γ} (k1 : Token → P β) (k2 : β → P γ) (t : TR) :
    ((pTok >>= k1) >>= k2) t = (k1 t.nextTok >>= k2) t := rfl
theorem bind_bind_pUnNext {β γ} (k1 : Unit → P β) (k2 : β → P γ) (t : TR) :
    ((pUnNext >>= k1) >>= k2) t = (k1 () >>= k2) { t with keep := true } := rfl
theorem bind_bind_pure {α β γ} (a : α) (k1 : α → P β) (k2 : β → P γ) (t : TR) :
    (((pure a : P α) >>= k1) >>= k2) t = (k1 a >>= k2) t := rfl
theorem bind_bind_pNext {β γ} (k1 : Bool → P β) (k2 : β → P γ) {t t' : TR} {r : Bool} (h : next t = (r, t')) :
    ((pNext >>= k1) >>= k2) t = (k1 r >>= k2) t' := by
  apply bind_bind_ok; simp only [pNext, h]

/-- expectSeq on a non-empty sequence: the state afterwards holds the last token -/
theorem expectSeq_last : ∀ (ts : List Token) (tok : Token) (l : List Token) (t : TR), Src (ts ++ tok :: l) t →
    ∃ t', expectSeq ((ts ++ [tok]).map (·.kind)) t = .ok (ts ++ [tok]) t' ∧ Lex l t' ∧ t'.nextTok = tok
  | [], tok, l, t, h => by
    obtain ⟨t1, hn, htok, hl⟩ := Src.step (tok := tok) h
    refine ⟨t1, ?_, hl, htok⟩
    simp only [List.nil_append, List.map_cons, List.map_nil, expectSeq]
    rw [bind_pNext _ hn, bind_pHasErr, hl.ok.hasErr]
    simp only [Bool.false_eq_true, if_false, Bool.not_true, bind_pTok, htok, bne_self_eq_false]
    rfl
  | a :: ts, tok, l, t, h => by
    obtain ⟨t1, hn, htok, hl⟩ := Src.step (tok := a) (l := ts ++ tok :: l) h
    obtain ⟨t', h1, h2, h3⟩ := expectSeq_last ts tok l t1 hl.src
    refine ⟨t', ?_, h2, h3⟩
    simp only [List.cons_append, List.map_cons, expectSeq]
    rw [bind_pNext _ hn, bind_pHasErr, hl.ok.hasErr]
    simp only [Bool.false_eq_true, if_false, Bool.not_true, bind_pTok, htok, bne_self_eq_false]
    rw [bind_ok h1]
    rfl

theorem dropWhile_none' {α} (p : α → Bool) : ∀ (l : List α), (∀ x ∈ l, p x = false) → l.dropWhile p = l
  | [], _ => rfl
  | a :: l, h => by simp [List.dropWhile, h a (List.mem_cons_self)]

/-! ### types -/

/-- what follows the base of a type in `readFieldType`: look ahead, then the `[]` suffix loop -/
def sufK (f : Nat) (ft : FT) : P FT := do
  let nx ← pNext
  if !nx then pure ft else readFieldType.suffixLoop f ft

theorem suf_ok : ∀ (k f : Nat) (ft : FT) (x : Lexeme) (r : List Lexeme) (t : TR), k + 1 ≤ f →
    x.tok.kind ≠ .openSquare → Src (toks (sufLex k (x :: r))) t →
    ∃ t', sufK f ft t = .ok (wrapArr k ft) t' ∧ Src (toks (x :: r)) t'
  | 0, f, ft, x, r, t, hf, hx, h => by
    obtain ⟨f, rfl⟩ : ∃ g, f = g + 1 := ⟨f - 1, by omega⟩
    obtain ⟨t1, hn, htok, hl⟩ := Src.step (tok := x.tok) (l := toks r) h
    refine ⟨{ t1 with keep := true }, ?_, hl.unNext' htok⟩
    have hk : (t1.nextTok.kind == TK.openSquare) = false := by
      rw [htok]; cases hb : x.tok.kind == TK.openSquare with
      | false => rfl
      | true => exact absurd (eq_of_beq hb) hx
    simp only [sufK]
    rw [bind_pNext _ hn]
    simp only [Bool.not_true, Bool.false_eq_true, if_false, readFieldType.suffixLoop, bind_pTok, hk]
    rfl
  | k + 1, f, ft, x, r, t, hf, hx, h => by
    obtain ⟨f, rfl⟩ : ∃ g, f = g + 1 := ⟨f - 1, by omega⟩
    obtain ⟨t1, hn, htok, hl⟩ := Src.step (tok := tLB) (l := tRB :: toks (sufLex k (x :: r))) h
    obtain ⟨t2, h2, hsrc2⟩ := expectSeq_ok [tRB] _ t1 hl.src
    obtain ⟨t', h3, hsrc3⟩ := suf_ok k f (FT.arr ft) x r t2 (by omega) hx hsrc2
    refine ⟨t', ?_, hsrc3⟩
    have hk : (t1.nextTok.kind == TK.openSquare) = true := by rw [htok]; rfl
    simp only [sufK]
    rw [bind_pNext _ hn]
    simp only [Bool.not_true, Bool.false_eq_true, if_false, readFieldType.suffixLoop, bind_pTok, hk, if_true]
    simp only [List.map_cons, List.map_nil] at h2
    rw [bind_ok h2]
    exact h3

theorem rft_name (n : Str) (k f : Nat) (s : List Byte) (x : Lexeme) (r : List Lexeme) (t : TR) (hf : k + 2 ≤ f)
    (hx : x.tok.kind ≠ .openSquare) (h : Src (toks (typeLex (.name n k) s (x :: r))) t) :
    ∃ t', readFieldType f t = .ok (wrapArr k (.simple n)) t' ∧ Src (toks (x :: r)) t' := by
  obtain ⟨f, rfl⟩ : ∃ g, f = g + 1 := ⟨f - 1, by omega⟩
  obtain ⟨t1, h1, hl1, htok1⟩ := expectAnyOf_ok (ks := [.ident, .kArray, .kMap]) (tok := tId n)
    (l := toks (sufLex k (x :: r))) (by show [TK.ident, TK.kArray, TK.kMap].contains TK.ident = true; decide) h
  obtain ⟨t', h2, hsrc2⟩ := suf_ok k f (.simple n) x r t1 (by omega) hx hl1.src
  refine ⟨t', ?_, hsrc2⟩
  simp only [readFieldType]
  rw [bind_ok h1, bind_pTok]
  simp only [bind_pure, htok1]
  exact h2

theorem rft_ok : ∀ (ty : CType), CTypeOk ty → ∀ (f : Nat) (s : List Byte) (x : Lexeme) (r : List Lexeme) (t : TR),
    tyFuel ty ≤ f → x.tok.kind ≠ .openSquare → Src (toks (typeLex ty s (x :: r))) t →
    ∃ t', readFieldType f t = .ok (ftOf ty) t' ∧ Src (toks (x :: r)) t'
  | .name n k, _, f, s, x, r, t, hf, hx, h => rft_name n k f s x r t hf hx h
  | .array ty k, hty, f, s, x, r, t, hf, hx, h => by
    simp only [tyFuel] at hf
    obtain ⟨f, rfl⟩ : ∃ g, f = g + 1 := ⟨f - 1, by omega⟩
    obtain ⟨t1, h1, hl1, htok1⟩ := expectAnyOf_ok (ks := [.ident, .kArray, .kMap]) (tok := ⟨.kArray, kwArray⟩)
      (l := tLB :: toks (typeLex ty [] (⟨[], tRB⟩ :: sufLex k (x :: r)))) (by decide) h
    obtain ⟨t2, h2, hsrc2⟩ := expectSeq_ok [tLB] _ t1 hl1.src
    obtain ⟨t3, h3, hsrc3⟩ := rft_ok ty hty f [] ⟨[], tRB⟩ (sufLex k (x :: r)) t2 (by omega) (by decide) hsrc2
    obtain ⟨t4, h4, hsrc4⟩ := expectSeq_ok [tRB] (toks (sufLex k (x :: r))) t3 hsrc3
    obtain ⟨t', h5, hsrc5⟩ := suf_ok k f (.arr (ftOf ty)) x r t4 (by omega) hx hsrc4
    refine ⟨t', ?_, hsrc5⟩
    have hk : t1.nextTok.kind = .kArray := by rw [htok1]
    simp only [List.map_cons, List.map_nil] at h2 h4
    simp only [readFieldType]
    rw [bind_ok h1, bind_pTok]
    simp only [hk]
    rw [bind_bind_ok h2, bind_bind_ok h3, bind_bind_ok h4, bind_pure]
    exact h5
  | .map key ty k, hty, f, s, x, r, t, hf, hx, h => by
    simp only [tyFuel] at hf
    obtain ⟨f, rfl⟩ : ∃ g, f = g + 1 := ⟨f - 1, by omega⟩
    obtain ⟨t1, h1, hl1, htok1⟩ := expectAnyOf_ok (ks := [.ident, .kArray, .kMap]) (tok := ⟨.kMap, kwMap⟩)
      (l := tLB :: tId key :: tComma :: toks (typeLex ty [32] (⟨[], tRB⟩ :: sufLex k (x :: r)))) (by decide) h
    obtain ⟨t2, h2, hsrc2⟩ := expectSeq_ok [tLB] _ t1 hl1.src
    obtain ⟨t3, h3, hsrc3⟩ := rft_name key 0 f [] ⟨[], tComma⟩
      (typeLex ty [32] (⟨[], tRB⟩ :: sufLex k (x :: r))) t2 (by omega) (by decide) hsrc2
    obtain ⟨t4, h4, hsrc4⟩ := expectSeq_ok [tComma] _ t3 hsrc3
    obtain ⟨t5, h5, hsrc5⟩ := rft_ok ty hty.2.2 f [32] ⟨[], tRB⟩ (sufLex k (x :: r)) t4 (by omega) (by decide) hsrc4
    obtain ⟨t6, h6, hsrc6⟩ := expectSeq_ok [tRB] (toks (sufLex k (x :: r))) t5 hsrc5
    obtain ⟨t', h7, hsrc7⟩ := suf_ok k f (.map key (ftOf ty)) x r t6 (by omega) hx hsrc6
    refine ⟨t', ?_, hsrc7⟩
    have hk : t1.nextTok.kind = .kMap := by rw [htok1]
    simp only [List.map_cons, List.map_nil] at h2 h4 h6
    simp only [readFieldType]
    rw [bind_ok h1, bind_pTok]
    simp only [hk]
    rw [bind_bind_ok h2, bind_bind_ok h3]
    simp only [wrapArr, hty.2.1, Bool.not_true, Bool.false_eq_true, if_false]
    rw [bind_bind_ok h4, bind_bind_ok h5, bind_bind_ok h6, bind_pure]
    exact h7

/-! ### attributes -/

theorem plainQuoted_str {m : Str} (h : strBodyOk m = true) : plainQuoted (34 :: (m ++ [34])) = some m := by
  simp only [plainQuoted]
  have h1 : (m ++ [34]).getLast? = some 34 := by simp
  have h2 : (m ++ [34]).dropLast = m := by simp
  rw [h1]
  simp only [h2]
  simp only [strBodyOk] at h
  rw [if_pos h]

/-- `deprecated("msg")]` and the line break (the `[` has been read) -/
theorem readDeprecated_ok {m : Str} (hm : strBodyOk m = true) {r : List Lexeme} {t : TR}
    (h : Src (⟨.kDeprecated, kwDeprecated⟩ :: tLP :: tStr m :: tRP :: tRB :: tNl :: toks r) t) :
    ∃ t', readDeprecated t = .ok m t' ∧ Lex (toks r) t' ∧ t'.nextTok = tNl := by
  obtain ⟨t1, h1, hsrc1⟩ := expectSeq_ok [⟨.kDeprecated, kwDeprecated⟩, tLP, tStr m, tRP, tRB] _ t h
  obtain ⟨t2, h2, hl2, htok2⟩ := optNewline_ok (tok := tNl) rfl hsrc1
  refine ⟨t2, ?_, hl2, htok2⟩
  simp only [List.map_cons, List.map_nil] at h1
  simp only [readDeprecated]
  rw [bind_ok h1]
  simp only [List.getD_cons_succ, List.getD_cons_zero, unquote, plainQuoted_str hm, bind_pure]
  rw [bind_ok h2]
  rfl

/-! ### comments -/

theorem lineCommentText_cmt {c : Str} (h : docLineOk c = true) : lineCommentText (tCmt c) = c := by
  have hq : ∀ x ∈ c, (x == (13 : Byte) || x == (10 : Byte)) = false := by
    intro x hx
    simp only [docLineOk, List.all_eq_true, Bool.not_eq_true'] at h
    exact h x hx
  simp only [lineCommentText, List.drop_succ_cons, List.drop_zero]
  cases c with
  | nil => simp [List.dropWhile]
  | cons a c' =>
    have ha := hq a (List.mem_cons_self)
    have h1 : (a :: c' ++ [10]).dropWhile (fun x => x == (13 : Byte) || x == (10 : Byte)) = a :: c' ++ [10] := by
      simp [List.dropWhile, ha]
    have h2 : (a :: c' ++ [10]).reverse = 10 :: (a :: c').reverse := by simp
    have h3 : ((a :: c').reverse).dropWhile (fun x => x == (13 : Byte) || x == (10 : Byte)) = (a :: c').reverse :=
      dropWhile_none' _ _ (fun x hx => hq x (List.mem_reverse.1 hx))
    rw [h1, h2]
    simp only [List.dropWhile, show ((10 : Byte) == 13 || (10 : Byte) == 10) = true from rfl]
    rw [h3, List.reverse_reverse]

/-- a `// doc` line in a struct, message or union body that is not a tag comment -/
theorem tagsOf_cons (c : Str) (cs : List Str) : tagsOf (c :: cs) = tagsOf [c] ++ tagsOf cs := by
  simp only [tagsOf, List.filterMap_cons, List.filterMap_nil]
  cases (commentTag c).getD none <;> simp

theorem noteLineComment_ok (st : BodySt) {c : Str} (h : bodyDocOk c) (t : TR) :
    noteLineComment st (tCmt c) t =
      .ok { st with comments := st.comments ++ [c], tags := st.tags ++ tagsOf [c] } t := by
  obtain ⟨r, hr⟩ := Option.isSome_iff_exists.1 h.2
  simp only [noteLineComment, lineCommentText_cmt h.1, parseCommentTag, hr, bind_pure]
  cases r <;> simp [tagsOf, hr, pure_apply]

/-- skipEolComments on an end-of-line comment: it is swallowed -/
theorem skipEol_cmt (f : Nat) (c : Str) {l : List Token} {t : TR} (h : Src (tCmt c :: l) t) :
    ∃ t', skipEolComments (f + 1) t = .ok () t' ∧ Lex l t' ∧ t'.nextTok = tCmt c := by
  obtain ⟨t1, hn, htok, hl⟩ := h.step
  refine ⟨t1, ?_, hl, htok⟩
  have hk1 : (t1.nextTok.kind == TK.lineComment) = true := by rw [htok]; rfl
  simp only [skipEolComments]
  rw [bind_pNext _ hn]
  simp only [Bool.not_true, Bool.false_eq_true, if_false, bind_pTok, hk1, if_true]
  rfl

theorem not_close_of_nl {k : TK} (h : k = .newline) : (k == TK.closeCurly) = false := by subst h; rfl

/-! ### struct bodies -/

/-- the first token of a type is an identifier, `array` or `map` -/
theorem typeLex_head (ty : CType) (s : List Byte) (r : List Lexeme) :
    ∃ tk r', typeLex ty s r = ⟨s, tk⟩ :: r' ∧ (tk.kind = .ident ∨ tk.kind = .kArray ∨ tk.kind = .kMap) := by
  cases ty with
  | name n k => exact ⟨_, _, rfl, Or.inl rfl⟩
  | array t k => exact ⟨_, _, rfl, Or.inr (Or.inl rfl)⟩
  | map key v k => exact ⟨_, _, rfl, Or.inr (Or.inr rfl)⟩

/-- the number of loop iterations a field line takes: with a trailing comment there is no line-break token -/
def trailIter : Option Str → Nat
  | none => 2
  | some _ => 1

/-- one field line (after its doc and attribute lines, if any) -/
theorem field_iter (fuel f : Nat) (acc : List Field) (st : BodySt) (ind : List Byte) (ty : CType) (hty : CTypeOk ty)
    (name : Str) (trail : Option Str) (hfu : tyFuel ty ≤ fuel) (hfu1 : 1 ≤ fuel) (r : List Lexeme) (t : TR)
    (h : Src (toks (typeLex ty ind (⟨[32], tId name⟩ :: ⟨[], tSemi⟩ :: trailLex trail r))) t)
    (hcur : (t.nextTok.kind == TK.closeCurly) = false) :
    ∃ t', Lex (toks r) t' ∧ (t'.nextTok.kind == TK.closeCurly) = false ∧
      readStruct.loop fuel (f + trailIter trail) acc st t =
        readStruct.loop fuel f (acc ++ [{ ft := ftOf ty, name := name, comment := joinLines st.comments, tags := st.tags,
                                          depMsg := st.depMsg, deprecated := st.isDep }]) {} t' := by
  obtain ⟨tk, r', hhead, hkind⟩ := typeLex_head ty ind (⟨[32], tId name⟩ :: ⟨[], tSemi⟩ :: trailLex trail r)
  have h0 := h
  rw [hhead] at h0
  obtain ⟨t1, hn, htok, hl⟩ := Src.step (tok := tk) (l := toks r') h0
  have hsrc1 : Src (toks (typeLex ty ind (⟨[32], tId name⟩ :: ⟨[], tSemi⟩ :: trailLex trail r))) { t1 with keep := true } := by
    rw [hhead]; exact hl.unNext' htok
  obtain ⟨fu, rfl⟩ : ∃ g, fuel = g + 1 := ⟨fuel - 1, by omega⟩
  obtain ⟨t2, h2, hsrc2⟩ := rft_ok ty hty (fu + 1) ind ⟨[32], tId name⟩ _ _ hfu (by intro h; cases h) hsrc1
  obtain ⟨t3, h3, hsrc3⟩ := expectSeq_ok [tId name, tSemi] _ t2 hsrc2
  have hk1 : t1.nextTok.kind = tk.kind := by rw [htok]
  simp only [List.map_cons, List.map_nil] at h3
  cases trail with
  | none =>
    simp only [trailLex] at hsrc3
    obtain ⟨t4, h4, hsrc4, htok4⟩ := skipEol_ok fu (tok := tNl) rfl hsrc3
    obtain ⟨t5, hn5, htok5, hl5⟩ := hsrc4.step
    have hk4 : (t4.nextTok.kind == TK.closeCurly) = false := by rw [htok4]; rfl
    have hk5 : t5.nextTok.kind = .newline := by rw [htok5]
    refine ⟨t5, hl5, not_close_of_nl hk5, ?_⟩
    rw [show f + trailIter none = (f + 1) + 1 from rfl, readStruct.loop]
    simp only [bind_pTok, hcur, Bool.false_eq_true, if_false]
    rw [bind_pNext _ hn]
    simp only [Bool.not_true, Bool.false_eq_true, if_false, bind_pTok, hk1]
    rcases hkind with hk | hk | hk <;>
    · simp only [hk]
      rw [bind_pUnNext, bind_ok h2, bind_ok h3, bind_ok h4, readStruct.loop]
      simp only [bind_pTok, hk4, Bool.false_eq_true, if_false]
      rw [bind_pNext _ hn5]
      simp only [Bool.not_true, Bool.false_eq_true, if_false, bind_pTok, hk5]
      rfl
  | some c =>
    simp only [trailLex] at hsrc3
    obtain ⟨t4, h4, hl4, htok4⟩ := skipEol_cmt fu c hsrc3
    have hk4 : (t4.nextTok.kind == TK.closeCurly) = false := by rw [htok4]; rfl
    refine ⟨t4, hl4, hk4, ?_⟩
    rw [show f + trailIter (some c) = f + 1 from rfl, readStruct.loop]
    simp only [bind_pTok, hcur, Bool.false_eq_true, if_false]
    rw [bind_pNext _ hn]
    simp only [Bool.not_true, Bool.false_eq_true, if_false, bind_pTok, hk1]
    rcases hkind with hk | hk | hk <;>
    · simp only [hk]
      rw [bind_pUnNext, bind_ok h2, bind_ok h3, bind_ok h4]
      rfl

theorem bodySt_comments_nil (st : BodySt) : ({ st with comments := st.comments ++ [] } : BodySt) = st := by
  cases st; simp

theorem bodySt_doc_nil (st : BodySt) :
    ({ st with comments := st.comments ++ [], tags := st.tags ++ tagsOf [] } : BodySt) = st := by
  cases st; simp [tagsOf]

/-- `// doc` lines in a struct body: one iteration each -/
theorem struct_doc_iter (fuel : Nat) (ind : List Byte) : ∀ (cs : List Str) (f : Nat) (acc : List Field) (st : BodySt)
    (r : List Lexeme) (t : TR), (∀ c ∈ cs, bodyDocOk c) → Src (toks (docLex ind cs r)) t →
    (t.nextTok.kind == TK.closeCurly) = false →
    ∃ t', Src (toks r) t' ∧ (t'.nextTok.kind == TK.closeCurly) = false ∧
      readStruct.loop fuel (f + cs.length) acc st t =
        readStruct.loop fuel f acc { st with comments := st.comments ++ cs, tags := st.tags ++ tagsOf cs } t'
  | [], f, acc, st, r, t, _, h, hcur => ⟨t, h, hcur, by rw [bodySt_doc_nil]; rfl⟩
  | c :: cs, f, acc, st, r, t, hc, h, hcur => by
    simp only [docLex] at h
    obtain ⟨t1, hn, htok, hl⟩ := Src.step (tok := tCmt c) h
    have hk1 : t1.nextTok.kind = .lineComment := by rw [htok]
    obtain ⟨t', hsrc, hcur', he⟩ := struct_doc_iter fuel ind cs f acc { st with comments := st.comments ++ [c], tags := st.tags ++ tagsOf [c] } r t1
      (fun x hx => hc x (List.mem_cons_of_mem _ hx)) hl.src (by rw [hk1]; rfl)
    refine ⟨t', hsrc, hcur', ?_⟩
    rw [show f + (c :: cs).length = (f + cs.length) + 1 by simp; omega, readStruct.loop]
    simp only [bind_pTok, hcur, Bool.false_eq_true, if_false]
    rw [bind_pNext _ hn]
    simp only [Bool.not_true, Bool.false_eq_true, if_false, bind_pTok, hk1, htok]
    rw [bind_ok (noteLineComment_ok st (hc c (List.mem_cons_self)) t1), he]
    simp only [List.append_assoc, List.singleton_append, tagsOf_cons c cs]

theorem fieldsLen_ge : ∀ (fs : List CField), 2 ≤ fieldsLen fs
  | [] => by simp [fieldsLen]
  | f :: fs => by have := fieldsLen_ge fs; simp [fieldsLen]; omega

theorem msgFieldsLen_ge : ∀ (gs : List CMsgField), 2 ≤ msgFieldsLen gs
  | [] => by simp [msgFieldsLen]
  | g :: gs => by have := msgFieldsLen_ge gs; simp [msgFieldsLen]; omega

theorem enumOptsLen_ge : ∀ (os : List CEnumOpt), 2 ≤ enumOptsLen os
  | [] => by simp [enumOptsLen]
  | o :: os => by have := enumOptsLen_ge os; simp [enumOptsLen]; omega

theorem membersLen_ge : ∀ (ms : List CUMember), 2 ≤ membersLen ms
  | [] => by simp [membersLen]
  | m :: ms => by have := membersLen_ge ms; simp [membersLen]; omega

theorem fieldLen_mem : ∀ {fs : List CField} {g : CField}, g ∈ fs → fieldLen g ≤ fieldsLen fs
  | x :: fs, g, h => by
    rcases List.mem_cons.1 h with rfl | h
    · simp [fieldsLen]
    · have := fieldLen_mem h; simp [fieldsLen]; omega

theorem fieldsLoop_ok (fuel : Nat) (ind : List Byte) : ∀ (fs : List CField) (f : Nat) (acc : List Field)
    (r : List Lexeme) (t : TR), (∀ g ∈ fs, CFieldOk g) → fieldsLen fs ≤ f → fieldsLen fs ≤ fuel →
    Src (toks (fieldsLex ind fs r)) t → (t.nextTok.kind == TK.closeCurly) = false →
    ∃ t', readStruct.loop fuel f acc {} t = .ok (acc ++ fs.map fieldOfC) t' ∧ Lex (toks (⟨[], tNl⟩ :: r)) t'
  | [], f, acc, r, t, _, hf, _, h, hcur => by
    obtain ⟨f, rfl⟩ : ∃ g, f = g + 2 := ⟨f - 2, by simp [fieldsLen] at hf; omega⟩
    obtain ⟨t1, hn, htok, hl⟩ := Src.step (tok := tClose) (l := toks (⟨[], tNl⟩ :: r)) h
    refine ⟨t1, ?_, hl⟩
    have hk1 : t1.nextTok.kind = .closeCurly := by rw [htok]
    rw [show f + 2 = (f + 1) + 1 from rfl, readStruct.loop]
    simp only [bind_pTok, hcur, Bool.false_eq_true, if_false]
    rw [bind_pNext _ hn]
    simp only [Bool.not_true, Bool.false_eq_true, if_false, bind_pTok, hk1]
    rw [readStruct.loop]
    simp only [bind_pTok, hk1, beq_self_eq_true, if_true, List.map_nil, List.append_nil]
    rfl
  | g :: fs, f, acc, r, t, hok, hf, hfu, h, hcur => by
    have hg := hok g (List.mem_cons_self)
    have hty : tyFuel g.ty ≤ fuel := by
      have := tyFuel_le g.ty
      simp only [fieldsLen, fieldLen] at hfu; omega
    have h1fu : 1 ≤ fuel := by simp only [fieldsLen, fieldLen] at hfu; omega
    have hti : trailIter g.trail ≤ 2 := by cases g.trail <;> simp [trailIter]
    simp only [fieldsLex, fieldLex] at h
    -- the doc lines
    obtain ⟨f, rfl⟩ : ∃ k, f = k + g.doc.length := ⟨f - g.doc.length, by simp only [fieldsLen, fieldLen] at hf; omega⟩
    obtain ⟨t0, hsrc0, hcur0, he0⟩ := struct_doc_iter fuel ind g.doc f acc {} _ t hg.1 h hcur
    rw [he0]
    simp only [List.nil_append]
    cases hd : g.dep with
    | none =>
      rw [hd] at hsrc0
      simp only [depLex] at hsrc0
      obtain ⟨f, rfl⟩ : ∃ k, f = k + trailIter g.trail :=
        ⟨f - trailIter g.trail, by simp only [fieldsLen, fieldLen] at hf; omega⟩
      obtain ⟨t1, hl1, hk1, he1⟩ := field_iter fuel f acc { comments := g.doc, tags := tagsOf g.doc } ind g.ty hg.2.2.2.1 g.name g.trail hty h1fu
        _ t0 hsrc0 hcur0
      obtain ⟨t', h2, hl2⟩ := fieldsLoop_ok fuel ind fs f (acc ++ [fieldOfC g]) r t1
        (fun x hx => hok x (List.mem_cons_of_mem _ hx)) (by simp only [fieldsLen, fieldLen] at hf; omega)
        (by simp only [fieldsLen] at hfu; omega) hl1.src hk1
      refine ⟨t', ?_, hl2⟩
      rw [he1]
      simp only [List.map_cons, List.append_assoc, List.singleton_append] at h2 ⊢
      have hfd : fieldOfC g =
          { ft := ftOf g.ty, name := g.name, comment := joinLines g.doc, tags := tagsOf g.doc, depMsg := [], deprecated := false } := by
        simp [fieldOfC, docOf, hd, depMsgOf]
      rw [← hfd]
      exact h2
    | some m =>
      rw [hd] at hsrc0
      simp only [depLex] at hsrc0
      obtain ⟨f, rfl⟩ : ∃ k, f = k + trailIter g.trail + 1 :=
        ⟨f - trailIter g.trail - 1, by simp only [fieldsLen, fieldLen, hd, depLen] at hf; omega⟩
      obtain ⟨ta, hna, htoka, hla⟩ := Src.step (tok := tLB) hsrc0
      obtain ⟨t1, hd1, hl1, htok1⟩ := readDeprecated_ok (hg.2.2.1 m hd) hla.src
      have hcur1 : (t1.nextTok.kind == TK.closeCurly) = false := by rw [htok1]; rfl
      obtain ⟨t2, hl2, hk2, he2⟩ := field_iter fuel f acc { comments := g.doc, tags := tagsOf g.doc, isDep := true, depMsg := m } ind g.ty
        hg.2.2.2.1 g.name g.trail hty h1fu _ t1 hl1.src hcur1
      obtain ⟨t', h3, hl3⟩ := fieldsLoop_ok fuel ind fs f (acc ++ [fieldOfC g]) r t2
        (fun x hx => hok x (List.mem_cons_of_mem _ hx)) (by simp only [fieldsLen, fieldLen] at hf; omega)
        (by simp only [fieldsLen] at hfu; omega) hl2.src hk2
      refine ⟨t', ?_, hl3⟩
      have hka : t0 = t0 := rfl
      have hk0 : ta.nextTok.kind = .openSquare := by rw [htoka]
      rw [readStruct.loop]
      simp only [bind_pTok, hcur0, Bool.false_eq_true, if_false]
      rw [bind_pNext _ hna]
      simp only [Bool.not_true, Bool.false_eq_true, if_false, bind_pTok, hk0]
      rw [bind_ok hd1]
      have hst : ({ ({ comments := g.doc, tags := tagsOf g.doc } : BodySt) with isDep := true, depMsg := m } : BodySt) =
          { comments := g.doc, tags := tagsOf g.doc, isDep := true, depMsg := m } := rfl
      rw [hst, he2]
      simp only [List.map_cons, List.append_assoc, List.singleton_append] at h3 ⊢
      have hfd : fieldOfC g =
          { ft := ftOf g.ty, name := g.name, comment := joinLines g.doc, tags := tagsOf g.doc, depMsg := m, deprecated := true } := by
        simp [fieldOfC, docOf, hd, depMsgOf]
      rw [← hfd]
      exact h3

/-! ### message bodies -/

/-- one message field line (after its doc and attribute lines, if any) -/
theorem msg_field_iter (fuel f : Nat) (acc : List (Nat × Field)) (st : BodySt) (ind : List Byte) (idx : Str) (n : Nat)
    (hidx : parseUint idx false 8 = some n) (hn0 : n ≠ 0) (hfresh : acc.any (·.1 == n) = false)
    (ty : CType) (hty : CTypeOk ty) (name : Str) (trail : Option Str) (hfu : tyFuel ty ≤ fuel) (hfu1 : 1 ≤ fuel)
    (r : List Lexeme) (t : TR)
    (h : Src (toks (⟨ind, tNum idx⟩ :: ⟨[32], tArrow⟩ ::
      typeLex ty [32] (⟨[32], tId name⟩ :: ⟨[], tSemi⟩ :: trailLex trail r))) t)
    (hcur : (t.nextTok.kind == TK.closeCurly) = false) :
    ∃ t', Lex (toks r) t' ∧ (t'.nextTok.kind == TK.closeCurly) = false ∧
      readMessage.loop fuel (f + trailIter trail) acc st t =
        readMessage.loop fuel f (acc ++ [(n, { ft := ftOf ty, name := name, comment := joinLines st.comments,
                                               tags := st.tags, depMsg := st.depMsg, deprecated := st.isDep })]) {} t' := by
  obtain ⟨t1, h1, hl1, htok1⟩ := expectAnyOf_ok
    (ks := [.newline, .intLit, .openSquare, .blockComment, .lineComment, .closeCurly]) (tok := tNum idx) rfl h
  obtain ⟨t2, h2, hsrc2⟩ := expectSeq_ok [tArrow] _ t1 hl1.src
  obtain ⟨fu, rfl⟩ : ∃ g, fuel = g + 1 := ⟨fuel - 1, by omega⟩
  obtain ⟨t3, h3, hsrc3⟩ := rft_ok ty hty (fu + 1) [32] ⟨[32], tId name⟩ _ _ hfu (by intro h; cases h) hsrc2
  obtain ⟨t4, h4, hsrc4⟩ := expectSeq_ok [tId name, tSemi] _ t3 hsrc3
  have hn0' : (n == 0) = false := by simpa using hn0
  simp only [List.map_cons, List.map_nil] at h2 h4
  cases trail with
  | none =>
    simp only [trailLex] at hsrc4
    obtain ⟨t5, h5, hsrc5, htok5⟩ := skipEol_ok fu (tok := tNl) rfl hsrc4
    obtain ⟨t6, h6, hl6, htok6⟩ := expectAnyOf_ok
      (ks := [.newline, .intLit, .openSquare, .blockComment, .lineComment, .closeCurly]) (tok := tNl) (by decide) hsrc5
    have hk5 : (t5.nextTok.kind == TK.closeCurly) = false := by rw [htok5]; rfl
    have hk6 : t6.nextTok.kind = .newline := by rw [htok6]
    refine ⟨t6, hl6, not_close_of_nl hk6, ?_⟩
    rw [show f + trailIter none = (f + 1) + 1 from rfl, readMessage.loop]
    simp only [bind_pTok, hcur, Bool.false_eq_true, if_false]
    rw [bind_ok h1, bind_pTok]
    simp only [htok1, hidx, hn0', hfresh, Bool.false_eq_true, if_false]
    rw [bind_ok h2, bind_ok h3, bind_ok h4, bind_ok h5, readMessage.loop]
    simp only [bind_pTok, hk5, Bool.false_eq_true, if_false]
    rw [bind_ok h6, bind_pTok]
    simp only [hk6]
    rfl
  | some c =>
    simp only [trailLex] at hsrc4
    obtain ⟨t5, h5, hl5, htok5⟩ := skipEol_cmt fu c hsrc4
    have hk5 : (t5.nextTok.kind == TK.closeCurly) = false := by rw [htok5]; rfl
    refine ⟨t5, hl5, hk5, ?_⟩
    rw [show f + trailIter (some c) = f + 1 from rfl, readMessage.loop]
    simp only [bind_pTok, hcur, Bool.false_eq_true, if_false]
    rw [bind_ok h1, bind_pTok]
    simp only [htok1, hidx, hn0', hfresh, Bool.false_eq_true, if_false]
    rw [bind_ok h2, bind_ok h3, bind_ok h4, bind_ok h5]
    rfl

theorem msgFieldLen_mem : ∀ {gs : List CMsgField} {g : CMsgField}, g ∈ gs → msgFieldLen g ≤ msgFieldsLen gs
  | x :: gs, g, h => by
    rcases List.mem_cons.1 h with rfl | h
    · simp [msgFieldsLen]
    · have := msgFieldLen_mem h; simp [msgFieldsLen]; omega

/-- `// doc` lines in a message body: one iteration each -/
theorem msg_doc_iter (fuel : Nat) (ind : List Byte) : ∀ (cs : List Str) (f : Nat) (acc : List (Nat × Field))
    (st : BodySt) (r : List Lexeme) (t : TR), (∀ c ∈ cs, bodyDocOk c) → Src (toks (docLex ind cs r)) t →
    (t.nextTok.kind == TK.closeCurly) = false →
    ∃ t', Src (toks r) t' ∧ (t'.nextTok.kind == TK.closeCurly) = false ∧
      readMessage.loop fuel (f + cs.length) acc st t =
        readMessage.loop fuel f acc { st with comments := st.comments ++ cs, tags := st.tags ++ tagsOf cs } t'
  | [], f, acc, st, r, t, _, h, hcur => ⟨t, h, hcur, by rw [bodySt_doc_nil]; rfl⟩
  | c :: cs, f, acc, st, r, t, hc, h, hcur => by
    simp only [docLex] at h
    obtain ⟨t1, h1, hl1, htok1⟩ := expectAnyOf_ok
      (ks := [.newline, .intLit, .openSquare, .blockComment, .lineComment, .closeCurly]) (tok := tCmt c) rfl h
    have hk1 : t1.nextTok.kind = .lineComment := by rw [htok1]
    obtain ⟨t', hsrc, hcur', he⟩ := msg_doc_iter fuel ind cs f acc { st with comments := st.comments ++ [c], tags := st.tags ++ tagsOf [c] } r t1
      (fun x hx => hc x (List.mem_cons_of_mem _ hx)) hl1.src (by rw [hk1]; rfl)
    refine ⟨t', hsrc, hcur', ?_⟩
    rw [show f + (c :: cs).length = (f + cs.length) + 1 by simp; omega, readMessage.loop]
    simp only [bind_pTok, hcur, Bool.false_eq_true, if_false]
    rw [bind_ok h1, bind_pTok]
    simp only [hk1, htok1]
    rw [bind_ok (noteLineComment_ok st (hc c (List.mem_cons_self)) t1), he]
    simp only [List.append_assoc, List.singleton_append, tagsOf_cons c cs]

theorem msgLoop_ok (fuel : Nat) (ind : List Byte) : ∀ (gs : List CMsgField) (f : Nat) (acc : List (Nat × Field))
    (r : List Lexeme) (t : TR), (∀ g ∈ gs, CMsgFieldOk g) → (∀ g ∈ gs, ∀ x ∈ acc, x.1 ≠ idxVal g.idx) →
    (gs.map (fun g => idxVal g.idx)).Nodup → msgFieldsLen gs ≤ f → msgFieldsLen gs ≤ fuel →
    Src (toks (msgFieldsLex ind gs r)) t → (t.nextTok.kind == TK.closeCurly) = false →
    ∃ t', readMessage.loop fuel f acc {} t = .ok (acc ++ gs.map msgFieldOf) t' ∧ Lex (toks (⟨[], tNl⟩ :: r)) t'
  | [], f, acc, r, t, _, _, _, hf, _, h, hcur => by
    obtain ⟨f, rfl⟩ : ∃ g, f = g + 2 := ⟨f - 2, by simp [msgFieldsLen] at hf; omega⟩
    obtain ⟨t1, h1, hl1, htok1⟩ := expectAnyOf_ok
      (ks := [.newline, .intLit, .openSquare, .blockComment, .lineComment, .closeCurly]) (tok := tClose)
      (l := toks (⟨[], tNl⟩ :: r)) (by decide) h
    refine ⟨t1, ?_, hl1⟩
    have hk1 : t1.nextTok.kind = .closeCurly := by rw [htok1]
    have hne : (TK.newline == TK.closeCurly) = false := by decide
    rw [show f + 2 = (f + 1) + 1 from rfl, readMessage.loop]
    simp only [bind_pTok, hcur, hne, Bool.false_eq_true, if_false]
    rw [bind_ok h1, bind_pTok]
    simp only [hk1]
    rw [readMessage.loop]
    simp only [bind_pTok, hk1, beq_self_eq_true, if_true, List.map_nil, List.append_nil]
    rfl
  | g :: gs, f, acc, r, t, hok, hfresh, hnd, hf, hfu, h, hcur => by
    have hg := hok g (List.mem_cons_self)
    obtain ⟨n, hn, hn0⟩ := hg.2.2.2.2.1
    have hti : trailIter g.trail ≤ 2 := by cases g.trail <;> simp [trailIter]
    have hidx : idxVal g.idx = n := by simp [idxVal, hn]
    have hty : tyFuel g.ty ≤ fuel := by
      have := tyFuel_le g.ty
      simp only [msgFieldsLen, msgFieldLen] at hfu; omega
    have h1fu : 1 ≤ fuel := by simp only [msgFieldsLen, msgFieldLen] at hfu; omega
    have hany : acc.any (·.1 == n) = false := by
      rw [List.any_eq_false]
      intro x hx
      have := hfresh g (List.mem_cons_self) x hx
      rw [hidx] at this
      simpa using this
    simp only [List.map_cons, List.nodup_cons] at hnd
    have hfresh' : ∀ g' ∈ gs, ∀ x ∈ acc ++ [msgFieldOf g], x.1 ≠ idxVal g'.idx := by
      intro g' hg' x hx
      rcases List.mem_append.1 hx with hx | hx
      · exact hfresh g' (List.mem_cons_of_mem _ hg') x hx
      · simp only [List.mem_singleton] at hx
        subst hx
        intro heq
        apply hnd.1
        simp only [msgFieldOf] at heq
        rw [heq]
        exact List.mem_map.2 ⟨g', hg', rfl⟩
    simp only [msgFieldsLex, msgFieldLex] at h
    -- the doc lines
    obtain ⟨f, rfl⟩ : ∃ k, f = k + g.doc.length :=
      ⟨f - g.doc.length, by simp only [msgFieldsLen, msgFieldLen] at hf; omega⟩
    obtain ⟨t0, hsrc0, hcur0, he0⟩ := msg_doc_iter fuel ind g.doc f acc {} _ t hg.2.1 h hcur
    rw [he0]
    simp only [List.nil_append]
    cases hd : g.dep with
    | none =>
      rw [hd] at hsrc0
      simp only [depLex] at hsrc0
      obtain ⟨f, rfl⟩ : ∃ k, f = k + trailIter g.trail :=
        ⟨f - trailIter g.trail, by simp only [msgFieldsLen, msgFieldLen] at hf; omega⟩
      obtain ⟨t1, hl1, hk1, he1⟩ := msg_field_iter fuel f acc { comments := g.doc, tags := tagsOf g.doc } ind g.idx n hn hn0 hany g.ty
        hg.2.2.2.2.2.1 g.name g.trail hty h1fu _ t0 hsrc0 hcur0
      obtain ⟨t', h2, hl2⟩ := msgLoop_ok fuel ind gs f (acc ++ [msgFieldOf g]) r t1
        (fun x hx => hok x (List.mem_cons_of_mem _ hx)) hfresh' hnd.2
        (by simp only [msgFieldsLen, msgFieldLen] at hf; omega) (by simp only [msgFieldsLen] at hfu; omega) hl1.src
        hk1
      refine ⟨t', ?_, hl2⟩
      rw [he1]
      simp only [List.map_cons, List.append_assoc, List.singleton_append] at h2 ⊢
      have hfd : msgFieldOf g = (n,
          { ft := ftOf g.ty, name := g.name, comment := joinLines g.doc, tags := tagsOf g.doc, depMsg := [], deprecated := false }) := by
        simp [msgFieldOf, docOf, hd, depMsgOf, hidx]
      rw [← hfd]
      exact h2
    | some m =>
      rw [hd] at hsrc0
      simp only [depLex] at hsrc0
      obtain ⟨f, rfl⟩ : ∃ k, f = k + trailIter g.trail + 1 :=
        ⟨f - trailIter g.trail - 1, by simp only [msgFieldsLen, msgFieldLen, hd, depLen] at hf; omega⟩
      obtain ⟨ta, h0, hl0, htok0⟩ := expectAnyOf_ok
        (ks := [.newline, .intLit, .openSquare, .blockComment, .lineComment, .closeCurly]) (tok := tLB) (by decide) hsrc0
      obtain ⟨t1, hd1, hl1, htok1⟩ := readDeprecated_ok (hg.2.2.1 m hd) hl0.src
      have hcur1 : (t1.nextTok.kind == TK.closeCurly) = false := by rw [htok1]; rfl
      obtain ⟨t2, hl2, hk2, he2⟩ := msg_field_iter fuel f acc { comments := g.doc, tags := tagsOf g.doc, isDep := true, depMsg := m } ind g.idx n
        hn hn0 hany g.ty hg.2.2.2.2.2.1 g.name g.trail hty h1fu _ t1 hl1.src hcur1
      obtain ⟨t', h3, hl3⟩ := msgLoop_ok fuel ind gs f (acc ++ [msgFieldOf g]) r t2
        (fun x hx => hok x (List.mem_cons_of_mem _ hx)) hfresh' hnd.2
        (by simp only [msgFieldsLen, msgFieldLen] at hf; omega) (by simp only [msgFieldsLen] at hfu; omega) hl2.src
        hk2
      refine ⟨t', ?_, hl3⟩
      have hk0 : ta.nextTok.kind = .openSquare := by rw [htok0]
      rw [readMessage.loop]
      simp only [bind_pTok, hcur0, Bool.false_eq_true, if_false]
      rw [bind_ok h0, bind_pTok]
      simp only [hk0]
      rw [bind_ok hd1]
      have hst : ({ ({ comments := g.doc, tags := tagsOf g.doc } : BodySt) with isDep := true, depMsg := m } : BodySt) =
          { comments := g.doc, tags := tagsOf g.doc, isDep := true, depMsg := m } := rfl
      rw [hst, he2]
      simp only [List.map_cons, List.append_assoc, List.singleton_append] at h3 ⊢
      have hfd : msgFieldOf g = (n,
          { ft := ftOf g.ty, name := g.name, comment := joinLines g.doc, tags := tagsOf g.doc, depMsg := m, deprecated := true }) := by
        simp [msgFieldOf, docOf, hd, depMsgOf, hidx]
      rw [← hfd]
      exact h3

/-- readMessage (the `message` keyword has been read) -/
theorem readMessage_ok (fuel : Nat) (ind : List Byte) (name : Str) (gs : List CMsgField) (hok : ∀ g ∈ gs, CMsgFieldOk g)
    (hnd : (gs.map (fun g => idxVal g.idx)).Nodup) (hfu : msgFieldsLen gs ≤ fuel) (r : List Lexeme) (t : TR)
    (h : Src (tId name :: tOpen :: tNl :: toks (msgFieldsLex ind gs r)) t) :
    ∃ t', readMessage fuel t = .ok { name := name, fields := gs.map msgFieldOf } t' ∧
      Lex (toks (⟨[], tNl⟩ :: r)) t' := by
  obtain ⟨t1, h1, hsrc1⟩ := expectSeq_ok [tId name, tOpen] _ t h
  obtain ⟨t2, h2, hl2, htok2⟩ := optNewline_ok (tok := tNl) rfl hsrc1
  obtain ⟨t', h3, hl3⟩ := msgLoop_ok fuel ind gs fuel [] r t2 hok (fun _ _ x hx => by cases hx) hnd hfu hfu hl2.src
    (by rw [htok2]; rfl)
  refine ⟨t', ?_, hl3⟩
  simp only [List.map_cons, List.map_nil] at h1
  simp only [readMessage]
  rw [bind_ok h1, bind_ok h2, bind_ok h3]
  rfl

/-- readStruct (the `struct` keyword has been read) -/
theorem readStructX_ok (fuel : Nat) (ind : List Byte) (name : Str) (fs : List CField) (hok : ∀ g ∈ fs, CFieldOk g)
    (hfu : fieldsLen fs ≤ fuel) (r : List Lexeme) (t : TR)
    (h : Src (tId name :: tOpen :: tNl :: toks (fieldsLex ind fs r)) t) :
    ∃ t', readStruct fuel t = .ok { name := name, fields := fs.map fieldOfC } t' ∧
      Lex (toks (⟨[], tNl⟩ :: r)) t' := by
  obtain ⟨t1, h1, hsrc1⟩ := expectSeq_ok [tId name, tOpen] _ t h
  obtain ⟨t2, h2, hl2, htok2⟩ := optNewline_ok (tok := tNl) rfl hsrc1
  obtain ⟨t', h3, hl3⟩ := fieldsLoop_ok fuel ind fs fuel [] r t2 hok hfu hfu hl2.src (by rw [htok2]; rfl)
  refine ⟨t', ?_, hl3⟩
  simp only [List.map_cons, List.map_nil] at h1
  simp only [readStruct]
  rw [bind_ok h1, bind_ok h2, bind_ok h3]
  rfl

theorem dropWhile_none {α} (p : α → Bool) : ∀ (l : List α), (∀ x ∈ l, p x = false) → l.dropWhile p = l
  | [], _ => rfl
  | a :: l, h => by simp [List.dropWhile, h a (List.mem_cons_self)]

theorem trimQuotes_str {s : Str} (h : strBodyOk s = true) : trimQuotes (34 :: (s ++ [34])) = s := by
  have hq : ∀ x ∈ s, (x == (0x22 : Byte)) = false := by
    intro x hx
    simp only [strBodyOk, List.all_eq_true, Bool.and_eq_true, bne_iff_ne, ne_eq] at h
    have := (h x hx).2
    cases hb : x == (0x22 : Byte) with
    | false => rfl
    | true => exact absurd (eq_of_beq hb) this
  cases s with
  | nil => simp [trimQuotes, List.dropWhile]
  | cons c s' =>
    have hc := hq c (List.mem_cons_self)
    have h1 : (34 :: (c :: s' ++ [34])).dropWhile (· == (0x22 : Byte)) = c :: s' ++ [34] := by
      simp [List.dropWhile, hc]
    have h2 : (c :: s' ++ [34]).reverse = 34 :: (c :: s').reverse := by simp
    have h3 : ((c :: s').reverse).dropWhile (· == (0x22 : Byte)) = (c :: s').reverse :=
      dropWhile_none _ _ (fun x hx => hq x (List.mem_reverse.1 hx))
    simp only [trimQuotes, h1, h2]
    simp only [List.dropWhile, beq_self_eq_true]
    rw [h3, List.reverse_reverse]

/-- `opcode(…)]` and the line break (the `[` has been read and `opcode` un-read) -/
theorem readOpCode_ok {o : OpLit} (ho : OpLitOk o) {r : List Lexeme} {t : TR}
    (h : Src (⟨.kOpCode, kwOpcode⟩ :: tLP :: opLitTok o :: tRP :: tRB :: tNl :: toks r) t) :
    ∃ t', readOpCode t = .ok (opVal (some o)) t' ∧ Lex (toks r) t' := by
  obtain ⟨t1, h1, hsrc1⟩ := expectSeq_ok [⟨.kOpCode, kwOpcode⟩, tLP] _ t h
  have hcont : [TK.intLit, TK.strLit].contains (opLitTok o).kind = true := by cases o <;> rfl
  obtain ⟨t2, h2, hl2, htok2⟩ := expectAnyOf_ok hcont hsrc1
  obtain ⟨t3, h3, hsrc3⟩ := expectSeq_ok [tRP, tRB] _ t2 hl2.src
  obtain ⟨t4, h4, hl4, _⟩ := optNewline_ok (tok := tNl) rfl hsrc3
  refine ⟨t4, ?_, hl4⟩
  simp only [List.map_cons, List.map_nil] at h1 h3
  simp only [readOpCode]
  rw [bind_ok h1, bind_ok h2, bind_pTok, htok2]
  cases o with
  | num lit =>
    obtain ⟨n, hn⟩ := Option.isSome_iff_exists.1 ho.2
    simp only [opLitTok, beq_self_eq_true, if_true, hn, bind_pure]
    rw [bind_ok h3, bind_ok h4]
    simp [opVal, hn, pure_apply]
  | str s =>
    have hne : (TK.strLit == TK.intLit) = false := by decide
    simp only [opLitTok, hne, Bool.false_eq_true, if_false, trimQuotes_str ho.1, ho.2, bne_self_eq_false, bind_pure]
    rw [bind_ok h3, bind_ok h4]
    simp [opVal, pure_apply]

/-! ### the top-level loop -/

/-- the loop state after the `// doc` lines `cs` -/
abbrev docSt (F : File) (cs : List Str) : TopSt := { file := F, comments := cs }

/-- the loop state after the doc lines and an `[opcode(…)]` line -/
abbrev opSt (F : File) (cs : List Str) (code : Nat) : TopSt := { file := F, comments := cs, opCode := code }

/-- `// doc` lines at top level: one iteration each -/
theorem top_doc_iter (fuel : Nat) (F : File) : ∀ (cs : List Str) (f : Nat) (cs0 : List Str) (r : List Lexeme) (t : TR),
    (∀ c ∈ cs, docLineOk c = true) → Src (toks (docLex [] cs r)) t →
    ∃ t', Src (toks r) t' ∧ readFileLoop fuel (f + cs.length) (docSt F cs0) t = readFileLoop fuel f (docSt F (cs0 ++ cs)) t'
  | [], f, cs0, r, t, _, h => ⟨t, h, by simp⟩
  | c :: cs, f, cs0, r, t, hc, h => by
    simp only [docLex] at h
    obtain ⟨t1, hn, htok, hl⟩ := Src.step (tok := tCmt c) h
    have hk1 : t1.nextTok.kind = .lineComment := by rw [htok]
    obtain ⟨t', hsrc, he⟩ := top_doc_iter fuel F cs f (cs0 ++ [c]) r t1 (fun x hx => hc x (List.mem_cons_of_mem _ hx)) hl.src
    refine ⟨t', hsrc, ?_⟩
    rw [show f + (c :: cs).length = (f + cs.length) + 1 by simp; omega, readFileLoop, bind_pNext _ hn]
    simp only [Bool.not_true, Bool.false_eq_true, if_false, bind_pTok, stepTop, hk1, htok,
      lineCommentText_cmt (hc c (List.mem_cons_self)), bind_pure]
    rw [he]
    simp only [List.append_assoc, List.singleton_append]

theorem top_op (fuel f : Nat) (F : File) (cs : List Str) {o : OpLit} (ho : OpLitOk o) {r : List Lexeme} {t : TR}
    (h : Src (toks (opLex (some o) r)) t) :
    ∃ t', Lex (toks r) t' ∧ readFileLoop fuel (f + 1) (docSt F cs) t = readFileLoop fuel f (opSt F cs (opVal (some o))) t' := by
  obtain ⟨t1, hn, htok, hl⟩ := Src.step (tok := tLB) h
  obtain ⟨t2, h2, hl2, htok2⟩ := expectAnyOf_ok (ks := [.kOpCode, .kFlags]) (tok := ⟨.kOpCode, kwOpcode⟩) (by decide) hl.src
  obtain ⟨t3, h3, hl3⟩ := readOpCode_ok ho (hl2.unNext' htok2)
  refine ⟨t3, hl3, ?_⟩
  have hk : t1.nextTok.kind = .openSquare := by rw [htok]
  have hk2 : t2.nextTok.kind = .kOpCode := by rw [htok2]
  rw [readFileLoop, bind_pNext _ hn]
  simp only [Bool.not_true, Bool.false_eq_true, if_false, bind_pTok, stepTop, hk]
  rw [bind_bind_ok h2, bind_bind_pTok]
  simp only [hk2, beq_self_eq_true, if_true]
  rw [bind_bind_pUnNext, bind_bind_ok h3, bind_pure]

/-- a struct (with its `readonly`, if any) and the line break after `}`: two iterations -/
theorem top_struct (fuel f : Nat) (F : File) (cs : List Str) (code : Nat) (ro : Bool) (name : Str) (fs : List CField)
    (hok : ∀ g ∈ fs, CFieldOk g) (hfu : fieldsLen fs ≤ fuel) {r : List Lexeme} {t : TR}
    (h : Src (toks (if ro then ⟨[], ⟨.kReadOnly, kwReadonly⟩⟩ :: structLex [32] [9] name fs r
                    else structLex [] [9] name fs r)) t) :
    ∃ t', Lex (toks r) t' ∧ readFileLoop fuel (f + 2) (opSt F cs code) t =
      readFileLoop fuel f (topSt { F with structs := F.structs ++
        [{ name := name, comment := joinLines cs, fields := fs.map fieldOfC, opCode := code, readOnly := ro }] }) t' := by
  cases ro with
  | false =>
    simp only [Bool.false_eq_true, if_false, structLex] at h
    obtain ⟨t1, hn, htok, hl⟩ := Src.step (tok := ⟨.kStruct, kwStruct⟩) h
    obtain ⟨t2, h2, hl2⟩ := readStructX_ok fuel [9] name fs hok hfu r t1 hl.src
    obtain ⟨t3, hl3, h3⟩ := loop_nl fuel f { F with structs := F.structs ++
        [{ name := name, comment := joinLines cs, fields := fs.map fieldOfC, opCode := code, readOnly := false }] } hl2.src
    refine ⟨t3, hl3, ?_⟩
    have hk : t1.nextTok.kind = .kStruct := by rw [htok]
    rw [← h3, show f + 2 = (f + 1) + 1 from rfl, readFileLoop, bind_pNext _ hn]
    simp only [Bool.not_true, Bool.false_eq_true, if_false, bind_pTok, stepTop, hk]
    rw [bind_bind_ok h2, bind_pure]
  | true =>
    simp only [if_true, structLex] at h
    obtain ⟨t0, hn0, htok0, hl0⟩ := Src.step (tok := ⟨.kReadOnly, kwReadonly⟩) h
    obtain ⟨t1, hn, htok, hl⟩ := Src.step (tok := ⟨.kStruct, kwStruct⟩) hl0.src
    obtain ⟨t2, h2, hl2⟩ := readStructX_ok fuel [9] name fs hok hfu r t1 hl.src
    obtain ⟨t3, hl3, h3⟩ := loop_nl fuel f { F with structs := F.structs ++
        [{ name := name, comment := joinLines cs, fields := fs.map fieldOfC, opCode := code, readOnly := true }] } hl2.src
    refine ⟨t3, hl3, ?_⟩
    have hk0 : t0.nextTok.kind = .kReadOnly := by rw [htok0]
    have hk : t1.nextTok.kind = .kStruct := by rw [htok]
    rw [← h3, show f + 2 = (f + 1) + 1 from rfl, readFileLoop, bind_pNext _ hn0]
    simp only [Bool.not_true, Bool.false_eq_true, if_false, bind_pTok, stepTop, hk0]
    rw [bind_bind_pNext _ _ hn]
    simp only [Bool.not_true, Bool.false_eq_true, if_false]
    rw [bind_bind_pTok]
    simp only [hk, bne_self_eq_false, Bool.false_eq_true, if_false]
    rw [bind_bind_ok h2, bind_pure]

/-- a message and the line break after `}`: two iterations -/
theorem top_message (fuel f : Nat) (F : File) (cs : List Str) (code : Nat) (name : Str) (gs : List CMsgField)
    (hok : ∀ g ∈ gs, CMsgFieldOk g) (hnd : (gs.map (fun g => idxVal g.idx)).Nodup) (hfu : msgFieldsLen gs ≤ fuel)
    {r : List Lexeme} {t : TR} (h : Src (toks (messageLex [] [9] name gs r)) t) :
    ∃ t', Lex (toks r) t' ∧ readFileLoop fuel (f + 2) (opSt F cs code) t =
      readFileLoop fuel f (topSt { F with messages := F.messages ++
        [{ name := name, comment := joinLines cs, fields := gs.map msgFieldOf, opCode := code }] }) t' := by
  simp only [messageLex] at h
  obtain ⟨t1, hn, htok, hl⟩ := Src.step (tok := ⟨.kMessage, kwMessage⟩) h
  obtain ⟨t2, h2, hl2⟩ := readMessage_ok fuel [9] name gs hok hnd hfu r t1 hl.src
  obtain ⟨t3, hl3, h3⟩ := loop_nl fuel f { F with messages := F.messages ++
      [{ name := name, comment := joinLines cs, fields := gs.map msgFieldOf, opCode := code }] } hl2.src
  refine ⟨t3, hl3, ?_⟩
  have hk : t1.nextTok.kind = .kMessage := by rw [htok]
  rw [← h3, show f + 2 = (f + 1) + 1 from rfl, readFileLoop, bind_pNext _ hn]
  simp only [Bool.not_true, Bool.false_eq_true, if_false, bind_pTok, stepTop, hk]
  rw [bind_bind_ok h2, bind_pure]

/-! ### enums -/

theorem strOf_uint32 : strOf "uint32" = kwUint32 := by decide

/-- readUntil(semicolon) over tokens that are not semicolons -/
theorem readUntilSemi_ok : ∀ (ts : List Token), (∀ tk ∈ ts, (tk.kind == TK.semicolon) = false) →
    ∀ (acc : List Token) (f : Nat) (l : List Token) (t : TR), ts.length < f → Src (ts ++ tSemi :: l) t →
    ∃ t', readUntilSemi f acc t = .ok (acc.reverse ++ ts) t' ∧ Lex l t' ∧ t'.nextTok = tSemi
  | [], _, acc, f, l, t, hf, h => by
    obtain ⟨f, rfl⟩ : ∃ g, f = g + 1 := ⟨f - 1, by simp at hf; omega⟩
    obtain ⟨t1, hn, htok, hl⟩ := Src.step (tok := tSemi) h
    refine ⟨t1, ?_, hl, htok⟩
    have hk : (t1.nextTok.kind == TK.semicolon) = true := by rw [htok]; rfl
    rw [readUntilSemi, bind_pNext _ hn]
    simp only [Bool.not_true, Bool.false_eq_true, if_false, bind_pTok, hk, if_true, List.append_nil]
    rfl
  | tk :: ts, hts, acc, f, l, t, hf, h => by
    obtain ⟨f, rfl⟩ : ∃ g, f = g + 1 := ⟨f - 1, by simp at hf; omega⟩
    obtain ⟨t1, hn, htok, hl⟩ := Src.step (tok := tk) (l := ts ++ tSemi :: l) h
    obtain ⟨t', h2, hl2, htok2⟩ := readUntilSemi_ok ts (fun x hx => hts x (List.mem_cons_of_mem _ hx)) (tk :: acc) f l t1
      (by simp at hf; omega) hl.src
    refine ⟨t', ?_, hl2, htok2⟩
    have hk : (tk.kind == TK.semicolon) = false := hts tk (List.mem_cons_self)
    rw [readUntilSemi, bind_pNext _ hn]
    simp only [Bool.not_true, Bool.false_eq_true, if_false, bind_pTok, htok, hk]
    rw [h2]
    simp

theorem etok_not_semi (e : ETok) : (e.tok.kind == TK.semicolon) = false := by cases e <;> rfl

/-- the value of an enum member, as `readEnumOptionValue` computes it -/
theorem enum_value (fuel bits : Nat) (uns fl : Bool) (prev : List EnumOption) (val : List ETok) (sv : Int) (uv : Nat)
    (hv : enumVal fl bits uns prev (val.map ETok.tok) = some (sv, uv)) (hfuel : val.length < fuel)
    {l : List Token} {t1 : TR} (h : Src (tEq :: (val.map ETok.tok ++ tSemi :: l)) t1) :
    ∃ t3, readEnumOptionValue fuel prev fl uns bits t1 = .ok (sv, uv) t3 ∧ Lex l t3 ∧ t3.nextTok = tSemi := by
  obtain ⟨t2, h2, hsrc2⟩ := expectSeq_ok [tEq] _ t1 h
  simp only [List.map_cons, List.map_nil] at h2
  cases fl with
  | false =>
    -- an ordinary enum: exactly one literal
    simp only [enumVal, Bool.false_eq_true, if_false] at hv
    match val, hv, hsrc2 with
    | [e], hv, hsrc2 =>
      simp only [List.map_cons, List.map_nil] at hv hsrc2
      by_cases hk : (e.tok.kind == TK.intLit) = true
      · obtain ⟨t3, h3, hl3, htok3⟩ := expectSeq_last [e.tok] tSemi _ t2 hsrc2
        simp only [List.map_cons, List.map_nil, List.cons_append, List.nil_append] at h3
        have hk' : e.tok.kind = .intLit := by simpa using hk
        rw [hk'] at h3
        refine ⟨t3, ?_, hl3, htok3⟩
        simp only [readEnumOptionValue]
        rw [bind_ok h2]
        simp only [Bool.not_false, if_true]
        rw [bind_ok h3]
        simp only [hk, if_true] at hv
        cases uns with
        | true =>
          simp only [if_true, Option.map_eq_some_iff] at hv
          obtain ⟨n, hn, heq⟩ := hv
          simp only [Prod.mk.injEq] at heq
          obtain ⟨rfl, rfl⟩ := heq
          simp [hn, pure_apply]
        | false =>
          simp only [Bool.false_eq_true, if_false, Option.map_eq_some_iff] at hv
          obtain ⟨n, hn, heq⟩ := hv
          simp only [Prod.mk.injEq] at heq
          obtain ⟨rfl, rfl⟩ := heq
          simp [hn, pure_apply]
      · simp [hk] at hv
  | true =>
    simp only [enumVal, if_true, List.length_map] at hv
    obtain ⟨t3, h3, hl3, htok3⟩ := readUntilSemi_ok (val.map ETok.tok)
      (by intro tk htk; obtain ⟨e, _, rfl⟩ := List.mem_map.1 htk; exact etok_not_semi e) [] fuel l t2
      (by simpa using hfuel) hsrc2
    refine ⟨t3, ?_, hl3, htok3⟩
    simp only [List.reverse_nil, List.nil_append] at h3
    simp only [readEnumOptionValue]
    rw [bind_ok h2]
    simp only [Bool.not_true, Bool.false_eq_true, if_false]
    rw [bind_ok h3]
    simp only [List.length_map]
    cases hp : parseExpr (val.length + 1) (val.map ETok.tok) with
    | none => rw [hp] at hv; cases hv
    | some e =>
      rw [hp] at hv
      simp only at hv ⊢
      cases he : evalExpr bits uns prev e with
      | none => rw [he] at hv; cases hv
      | some v =>
        rw [he] at hv
        simp only [Option.some.injEq] at hv
        simp only
        cases uns with
        | true => simp only [if_true] at hv ⊢; rw [← hv]; rfl
        | false => simp only [Bool.false_eq_true, if_false] at hv ⊢; rw [← hv]; rfl

/-- one member line (after its doc and attribute lines, if any): two iterations of the body loop -/
theorem enum_opt_iter (fuel bits : Nat) (uns fl : Bool) (f : Nat) (acc : List EnumOption) (st : BodySt) (o : CEnumOpt)
    (ho : CEnumOptOk fl bits uns acc o) (hfuel : o.val.length < fuel) (r : List Lexeme) (t : TR)
    (h : Src (toks (⟨[9], tId o.name⟩ :: spLex .ident (tEq :: o.val.map ETok.tok) (⟨[], tSemi⟩ :: ⟨[], tNl⟩ :: r))) t)
    (hcur : (t.nextTok.kind == TK.closeCurly) = false) :
    ∃ t', Lex (toks r) t' ∧ t'.nextTok.kind = .newline ∧
      readEnum.loop fuel fl bits uns (f + 2) acc st t =
        readEnum.loop fuel fl bits uns f
          (acc ++ [{ name := o.name, comment := joinLines st.comments, depMsg := st.depMsg,
                     value := ((enumVal fl bits uns acc (o.val.map ETok.tok)).getD (0, 0)).1,
                     uvalue := ((enumVal fl bits uns acc (o.val.map ETok.tok)).getD (0, 0)).2,
                     deprecated := st.isDep }]) {} t' := by
  obtain ⟨⟨sv, uv⟩, hv⟩ := Option.isSome_iff_exists.1 ho.2.2.2.2
  have htoks : ∀ (ts : List Token) (prev : TK) (r' : List Lexeme), toks (spLex prev ts r') = ts ++ toks r' := by
    intro ts
    induction ts with
    | nil => intro prev r'; rfl
    | cons tk ts ih => intro prev r'; simp [spLex, ih]
  obtain ⟨t1, hn1, htok1, hl1⟩ := Src.step (tok := tId o.name) h
  have hl1' : Lex (tEq :: (o.val.map ETok.tok ++ tSemi :: tNl :: toks r)) t1 := by
    have := hl1
    change Lex (toks (spLex .ident (tEq :: o.val.map ETok.tok) (⟨[], tSemi⟩ :: ⟨[], tNl⟩ :: r))) t1 at this
    rw [htoks] at this
    simpa using this
  obtain ⟨t3, hval, hl3, htok3⟩ := enum_value fuel bits uns fl acc o.val sv uv hv hfuel hl1'.src
  obtain ⟨t4, hn4, htok4, hl4⟩ := Src.step (tok := tNl) hl3.src
  have hk1 : t1.nextTok.kind = .ident := by rw [htok1]
  have hk4 : t4.nextTok.kind = .newline := by rw [htok4]
  refine ⟨t4, hl4, hk4, ?_⟩
  have hcur3 : (t3.nextTok.kind == TK.closeCurly) = false := by rw [htok3]; rfl
  rw [show f + 2 = (f + 1) + 1 from rfl, readEnum.loop]
  simp only [bind_pTok, hcur, Bool.false_eq_true, if_false]
  rw [bind_pNext _ hn1]
  simp only [Bool.not_true, Bool.false_eq_true, if_false, bind_pTok, hk1]
  rw [bind_ok hval, readEnum.loop]
  simp only [bind_pTok, hcur3, Bool.false_eq_true, if_false]
  rw [bind_pNext _ hn4]
  simp only [Bool.not_true, Bool.false_eq_true, if_false, bind_pTok, hk4, htok1, hv, Option.getD_some]

/-- `// doc` lines in an enum body: one iteration each -/
theorem enum_doc_iter (fuel bits : Nat) (uns fl : Bool) : ∀ (cs : List Str) (f : Nat) (acc : List EnumOption)
    (st : BodySt) (r : List Lexeme) (t : TR), (∀ c ∈ cs, docLineOk c = true) → Src (toks (docLex [9] cs r)) t →
    (t.nextTok.kind == TK.closeCurly) = false →
    ∃ t', Src (toks r) t' ∧ (t'.nextTok.kind == TK.closeCurly) = false ∧
      readEnum.loop fuel fl bits uns (f + cs.length) acc st t =
        readEnum.loop fuel fl bits uns f acc { st with comments := st.comments ++ cs } t'
  | [], f, acc, st, r, t, _, h, hcur => ⟨t, h, hcur, by rw [bodySt_comments_nil]; rfl⟩
  | c :: cs, f, acc, st, r, t, hc, h, hcur => by
    simp only [docLex] at h
    obtain ⟨t1, hn, htok, hl⟩ := Src.step (tok := tCmt c) h
    have hk1 : t1.nextTok.kind = .lineComment := by rw [htok]
    obtain ⟨t', hsrc, hcur', he⟩ := enum_doc_iter fuel bits uns fl cs f acc { st with comments := st.comments ++ [c] } r t1
      (fun x hx => hc x (List.mem_cons_of_mem _ hx)) hl.src (by rw [hk1]; rfl)
    refine ⟨t', hsrc, hcur', ?_⟩
    rw [show f + (c :: cs).length = (f + cs.length) + 1 by simp; omega, readEnum.loop]
    simp only [bind_pTok, hcur, Bool.false_eq_true, if_false]
    rw [bind_pNext _ hn]
    simp only [Bool.not_true, Bool.false_eq_true, if_false, bind_pTok, hk1, htok,
      lineCommentText_cmt (hc c (List.mem_cons_self))]
    rw [he]
    simp only [List.append_assoc, List.singleton_append]

theorem enumLoop_ok (fuel bits : Nat) (uns fl : Bool) :
    ∀ (os : List CEnumOpt) (f : Nat) (acc : List EnumOption)
    (r : List Lexeme) (t : TR), CEnumOptsOk fl bits uns acc os → enumOptsLen os ≤ f → enumOptsLen os ≤ fuel →
    Src (toks (enumOptsLex os r)) t → (t.nextTok.kind == TK.closeCurly) = false →
    ∃ t', readEnum.loop fuel fl bits uns f acc {} t = .ok (enumOptsOf fl bits uns acc os) t' ∧
      Lex (toks (⟨[], tNl⟩ :: r)) t'
  | [], f, acc, r, t, _, hf, _, h, hcur => by
    obtain ⟨f, rfl⟩ : ∃ g, f = g + 2 := ⟨f - 2, by simp [enumOptsLen] at hf; omega⟩
    obtain ⟨t1, hn, htok, hl⟩ := Src.step (tok := tClose) (l := toks (⟨[], tNl⟩ :: r)) h
    refine ⟨t1, ?_, hl⟩
    have hk1 : t1.nextTok.kind = .closeCurly := by rw [htok]
    rw [show f + 2 = (f + 1) + 1 from rfl, readEnum.loop]
    simp only [bind_pTok, hcur, Bool.false_eq_true, if_false]
    rw [bind_pNext _ hn]
    simp only [Bool.not_true, Bool.false_eq_true, if_false, bind_pTok, hk1]
    rw [readEnum.loop]
    simp only [bind_pTok, hk1, beq_self_eq_true, if_true, enumOptsOf]
    rfl
  | o :: os, f, acc, r, t, hok, hf, hfu, h, hcur => by
    have ho := hok.1
    have hvl : o.val.length < fuel := by simp only [enumOptsLen, enumOptLen] at hfu; omega
    simp only [enumOptsLex, enumOptLex] at h
    obtain ⟨f, rfl⟩ : ∃ k, f = k + o.doc.length := ⟨f - o.doc.length, by simp only [enumOptsLen, enumOptLen] at hf; omega⟩
    obtain ⟨t0, hsrc0, hcur0, he0⟩ := enum_doc_iter fuel bits uns fl o.doc f acc {} _ t ho.1 h hcur
    rw [he0]
    simp only [List.nil_append]
    cases hd : o.dep with
    | none =>
      rw [hd] at hsrc0
      simp only [depLex] at hsrc0
      obtain ⟨f, rfl⟩ : ∃ k, f = k + 2 := ⟨f - 2, by simp only [enumOptsLen, enumOptLen] at hf; omega⟩
      obtain ⟨t1, hl1, hk1, he1⟩ := enum_opt_iter fuel bits uns fl f acc { comments := o.doc } o ho hvl _ t0 hsrc0 hcur0
      obtain ⟨t', h2, hl2⟩ := enumLoop_ok fuel bits uns fl os f (acc ++ [enumOptOf fl bits uns acc o]) r t1
        hok.2 (by simp only [enumOptsLen, enumOptLen] at hf; omega) (by simp only [enumOptsLen] at hfu; omega) hl1.src
        (not_close_of_nl hk1)
      refine ⟨t', ?_, hl2⟩
      rw [he1]
      have hfd : enumOptOf fl bits uns acc o =
          { name := o.name, comment := joinLines o.doc, depMsg := [],
            value := ((enumVal fl bits uns acc (o.val.map ETok.tok)).getD (0, 0)).1,
            uvalue := ((enumVal fl bits uns acc (o.val.map ETok.tok)).getD (0, 0)).2, deprecated := false } := by
        simp [enumOptOf, docOf, hd, depMsgOf]
      simp only [enumOptsOf]
      rw [← hfd]
      exact h2
    | some m =>
      rw [hd] at hsrc0
      simp only [depLex] at hsrc0
      obtain ⟨f, rfl⟩ : ∃ k, f = k + 3 := ⟨f - 3, by simp only [enumOptsLen, enumOptLen, hd, depLen] at hf; omega⟩
      obtain ⟨ta, hn0, htok0, hl0⟩ := Src.step (tok := tLB) hsrc0
      obtain ⟨t1, hd1, hl1, htok1⟩ := readDeprecated_ok (ho.2.1 m hd) hl0.src
      have hcur1 : (t1.nextTok.kind == TK.closeCurly) = false := by rw [htok1]; rfl
      obtain ⟨t2, hl2, hk2, he2⟩ := enum_opt_iter fuel bits uns fl f acc
        { comments := o.doc, isDep := true, depMsg := m } o ho hvl _ t1 hl1.src hcur1
      obtain ⟨t', h3, hl3⟩ := enumLoop_ok fuel bits uns fl os f (acc ++ [enumOptOf fl bits uns acc o]) r t2
        hok.2 (by simp only [enumOptsLen, enumOptLen] at hf; omega) (by simp only [enumOptsLen] at hfu; omega) hl2.src
        (not_close_of_nl hk2)
      refine ⟨t', ?_, hl3⟩
      have hk0 : ta.nextTok.kind = .openSquare := by rw [htok0]
      rw [show f + 3 = (f + 2) + 1 from rfl, readEnum.loop]
      simp only [bind_pTok, hcur0, Bool.false_eq_true, if_false]
      rw [bind_pNext _ hn0]
      simp only [Bool.not_true, Bool.false_eq_true, if_false, bind_pTok, hk0]
      rw [bind_ok hd1]
      have hst : ({ ({ comments := o.doc } : BodySt) with isDep := true, depMsg := m } : BodySt) =
          { comments := o.doc, isDep := true, depMsg := m } := rfl
      rw [hst, he2]
      have hfd : enumOptOf fl bits uns acc o =
          { name := o.name, comment := joinLines o.doc, depMsg := m,
            value := ((enumVal fl bits uns acc (o.val.map ETok.tok)).getD (0, 0)).1,
            uvalue := ((enumVal fl bits uns acc (o.val.map ETok.tok)).getD (0, 0)).2, deprecated := true } := by
        simp [enumOptOf, docOf, hd, depMsgOf]
      simp only [enumOptsOf]
      rw [← hfd]
      exact h3

/-- the facts about the base type of an enum that `readEnum` checks -/
theorem enumBase_facts (base : Option Str)
    (hb : ∀ b, base = some b → IdentOk b = true ∧ (isUintName b || isIntName b) = true ∧ (decodeInteger b).isSome = true) :
    (isUintName (enumBase base) || isIntName (enumBase base)) = true ∧
    decodeInteger (enumBase base) = some (enumBits base) ∧ 0 < (enumBits base).1 := by
  cases base with
  | none => exact ⟨by decide, by decide, by decide⟩
  | some b =>
    obtain ⟨_, h2, h3⟩ := hb b rfl
    obtain ⟨x, hx⟩ := Option.isSome_iff_exists.1 h3
    refine ⟨h2, by simp [enumBits, enumBase, hx], ?_⟩
    have hall : ∀ e ∈ Facts.integerTypes, 0 < e.2.1 := by decide
    simp only [enumBits, enumBase, hx, Option.getD_some]
    simp only [decodeInteger, Option.map_eq_some_iff] at hx
    obtain ⟨e, he, rfl⟩ := hx
    exact hall e (List.mem_of_find?_eq_some he)

/-- readEnum (the `enum` keyword has been read), for an enum that is not a `[flags]` enum -/
theorem readEnum_ok (fuel : Nat) (fl : Bool) (name : Str) (base : Option Str) (os : List CEnumOpt)
    (hb : ∀ b, base = some b → IdentOk b = true ∧ (isUintName b || isIntName b) = true ∧ (decodeInteger b).isSome = true)
    (hok : CEnumOptsOk fl (enumBits base).1 (enumBits base).2 [] os) (hfu : enumOptsLen os ≤ fuel)
    (r : List Lexeme) (t : TR)
    (h : Src (toks (⟨[32], tId name⟩ :: baseLex base (⟨[32], tOpen⟩ :: ⟨[], tNl⟩ :: enumOptsLex os r))) t) :
    ∃ t', readEnum fuel fl t =
        .ok { name := name, options := enumOptsOf fl (enumBits base).1 (enumBits base).2 [] os,
              simpleType := enumBase base, unsigned := (enumBits base).2 } t' ∧
      Lex (toks (⟨[], tNl⟩ :: r)) t' := by
  obtain ⟨hname, hdec, _⟩ := enumBase_facts base hb
  obtain ⟨t1, h1, hsrc1⟩ := expectSeq_ok [tId name] _ t h
  simp only [List.map_cons, List.map_nil] at h1
  -- the header up to and including `{`
  have hhead : ∃ t2, Src (toks (⟨[], tNl⟩ :: enumOptsLex os r)) t2 ∧
      ∀ {β} (k : Str → P β),
        ((do expectAnyOf [.colon, .openCurly]
             let tk ← pTok
             let simpleType ← (if tk.kind == .colon then do
                 let ts ← expectSeq [.ident, .openCurly]
                 let sz := (ts.headD {}).concrete
                 if !isUintName sz && !isIntName sz then fail else pure sz
               else pure (strOf "uint32") : P Str)
             k simpleType) : P β) t1 = k (enumBase base) t2 := by
    cases base with
    | none =>
      simp only [baseLex] at hsrc1
      obtain ⟨t2, h2, hl2, htok2⟩ := expectAnyOf_ok (ks := [.colon, .openCurly]) (tok := tOpen) (by decide) hsrc1
      refine ⟨t2, hl2.src, ?_⟩
      intro β k
      have hk2 : (t2.nextTok.kind == TK.colon) = false := by rw [htok2]; rfl
      rw [bind_ok h2, bind_pTok]
      simp only [hk2, Bool.false_eq_true, if_false, bind_pure, strOf_uint32, enumBase]
    | some b =>
      simp only [baseLex] at hsrc1
      obtain ⟨t2, h2, hl2, htok2⟩ := expectAnyOf_ok (ks := [.colon, .openCurly]) (tok := tColon) (by decide) hsrc1
      obtain ⟨t3, h3, hsrc3⟩ := expectSeq_ok [tId b, tOpen] _ t2 hl2.src
      refine ⟨t3, hsrc3, ?_⟩
      intro β k
      have hk2 : (t2.nextTok.kind == TK.colon) = true := by rw [htok2]; rfl
      simp only [List.map_cons, List.map_nil] at h3
      simp only [enumBase] at hname
      have hname' : (!isUintName b && !isIntName b) = false := by
        cases h1 : isUintName b <;> cases h2 : isIntName b <;> simp_all
      rw [bind_ok h2, bind_pTok]
      simp only [hk2, if_true]
      rw [bind_bind_ok h3]
      simp only [List.headD_cons, hname', Bool.false_eq_true, if_false, bind_pure, enumBase]
  obtain ⟨t2, hsrc2, hhd⟩ := hhead
  obtain ⟨t3, h3, hl3, htok3⟩ := optNewline_ok (tok := tNl) rfl hsrc2
  obtain ⟨t', h4, hl4⟩ := enumLoop_ok fuel (enumBits base).1 (enumBits base).2 fl os fuel [] r t3 hok hfu hfu hl3.src
    (by rw [htok3]; rfl)
  refine ⟨t', ?_, hl4⟩
  simp only [readEnum]
  rw [bind_ok h1, hhd, bind_ok h3]
  simp only [hdec]
  rw [bind_ok h4]
  rfl

/-- the loop state after a `[flags]` line -/
abbrev flSt (F : File) (cs : List Str) (fl : Bool) : TopSt := { file := F, comments := cs, bitFlags := fl }

/-- the `[flags]` line: one iteration -/
theorem top_flags (fuel f : Nat) (F : File) (cs : List Str) {r : List Lexeme} {t : TR} (h : Src (toks (flagsLex true r)) t) :
    ∃ t', Lex (toks r) t' ∧ readFileLoop fuel (f + 1) (docSt F cs) t = readFileLoop fuel f (flSt F cs true) t' := by
  simp only [flagsLex] at h
  obtain ⟨t1, hn, htok, hl⟩ := Src.step (tok := tLB) h
  obtain ⟨t2, h2, hl2, htok2⟩ := expectAnyOf_ok (ks := [.kOpCode, .kFlags]) (tok := ⟨.kFlags, kwFlags⟩) (by decide) hl.src
  obtain ⟨t3, h3, hl3, _⟩ := expectAnyOf_ok (ks := [.closeSquare]) (tok := tRB) (by decide) hl2.src
  obtain ⟨t4, h4, hl4, _⟩ := optNewline_ok (tok := tNl) rfl hl3.src
  refine ⟨t4, hl4, ?_⟩
  have hk : t1.nextTok.kind = .openSquare := by rw [htok]
  have hk2 : (t2.nextTok.kind == TK.kOpCode) = false := by rw [htok2]; rfl
  rw [readFileLoop, bind_pNext _ hn]
  simp only [Bool.not_true, Bool.false_eq_true, if_false, bind_pTok, stepTop, hk]
  rw [bind_bind_ok h2, bind_bind_pTok]
  simp only [hk2, Bool.false_eq_true, if_false]
  rw [bind_bind_ok h3, bind_bind_ok h4, bind_pure]

/-- an enum and the line break after `}`: two iterations -/
theorem top_enum (fuel f : Nat) (F : File) (cs : List Str) (fl : Bool) (name : Str) (base : Option Str) (os : List CEnumOpt)
    (hb : ∀ b, base = some b → IdentOk b = true ∧ (isUintName b || isIntName b) = true ∧ (decodeInteger b).isSome = true)
    (hok : CEnumOptsOk fl (enumBits base).1 (enumBits base).2 [] os) (hfu : enumOptsLen os ≤ fuel)
    {r : List Lexeme} {t : TR}
    (h : Src (toks (⟨[], ⟨.kEnum, kwEnum⟩⟩ :: ⟨[32], tId name⟩ ::
      baseLex base (⟨[32], tOpen⟩ :: ⟨[], tNl⟩ :: enumOptsLex os r))) t) :
    ∃ t', Lex (toks r) t' ∧ readFileLoop fuel (f + 2) (flSt F cs fl) t =
      readFileLoop fuel f (topSt (addDefC F cs (.enum fl name base os))) t' := by
  obtain ⟨t1, hn, htok, hl⟩ := Src.step (tok := ⟨.kEnum, kwEnum⟩) h
  obtain ⟨t2, h2, hl2⟩ := readEnum_ok fuel fl name base os hb hok hfu r t1 hl.src
  obtain ⟨t3, hl3, h3⟩ := loop_nl fuel f (addDefC F cs (.enum fl name base os)) hl2.src
  refine ⟨t3, hl3, ?_⟩
  have hk : t1.nextTok.kind = .kEnum := by rw [htok]
  rw [← h3, show f + 2 = (f + 1) + 1 from rfl, readFileLoop, bind_pNext _ hn]
  simp only [Bool.not_true, Bool.false_eq_true, if_false, bind_pTok, stepTop, hk, bne_self_eq_false]
  rw [bind_bind_ok h2, bind_pure]
  rfl

/-! ### unions -/

theorem keep_false_eq {t : TR} (h : t.keep = false) : ({ t with keep := false } : TR) = t := by
  cases t; simp_all

theorem bind_setKeep {β} (k : Unit → P β) (t : TR) (h : t.keep = false) :
    ((fun t => PR.ok () { t with keep := false } : P Unit) >>= k) t = k () t := by
  show k () { t with keep := false } = k () t
  rw [keep_false_eq h]

/-- what `readUnion` does after the body of a member: step over the `}` and the line break -/
theorem member_tail (fuel : Nat) (hfu : 1 ≤ fuel) {r : List Lexeme} {t : TR} (h : Lex (toks (⟨[], tNl⟩ :: r)) t)
    {β} (k : P β) :
    ∃ t', Lex (toks r) t' ∧ t'.nextTok.kind = .newline ∧
      ((do (fun t => PR.ok () { t with keep := false } : P Unit)
           let more ← pNext
           if !more then fail else do
           pUnNext
           skipEolComments fuel
           optNewline
           k) : P β) t = k t' := by
  obtain ⟨fu, rfl⟩ : ∃ g, fuel = g + 1 := ⟨fuel - 1, by omega⟩
  obtain ⟨t1, hn1, htok1, hl1⟩ := Src.step (tok := tNl) h.src
  obtain ⟨t2, h2, hsrc2, _⟩ := skipEol_ok fu (tok := tNl) rfl (hl1.unNext' htok1)
  obtain ⟨t3, h3, hl3, htok3⟩ := optNewline_ok (tok := tNl) rfl hsrc2
  refine ⟨t3, hl3, by rw [htok3], ?_⟩
  rw [bind_setKeep _ _ h.ok.keep, bind_pNext _ hn1]
  simp only [Bool.not_true, Bool.false_eq_true, if_false]
  rw [bind_pUnNext, bind_ok h2, bind_ok h3]

/-- a struct member `idx -> struct Name { … }`: one iteration of the body loop -/
theorem member_struct_iter (fuel f : Nat) (acc : List (Nat × UnionField)) (st : BodySt) (idx : Str) (n : Nat)
    (hidx : parseUint idx false 8 = some n) (hfresh : acc.any (·.1 == n) = false) (name : Str) (fs : List CField)
    (hok : ∀ g ∈ fs, CFieldOk g) (hfu : fieldsLen fs ≤ fuel) (r : List Lexeme) (t : TR)
    (h : Src (toks (⟨[9], tNum idx⟩ :: ⟨[32], tArrow⟩ :: structLex [32] [9, 9] name fs r)) t)
    (hcur : (t.nextTok.kind == TK.closeCurly) = false) :
    ∃ t', Lex (toks r) t' ∧ t'.nextTok.kind = .newline ∧
      readUnion.loop fuel (f + 1) acc st t =
        readUnion.loop fuel f (acc ++ [(n, { body := UBody.st { name := name, comment := joinLines st.comments,
                                                                 fields := fs.map fieldOfC },
                                             tags := st.tags, depMsg := st.depMsg, deprecated := st.isDep })]) {} t' := by
  simp only [structLex] at h
  obtain ⟨t1, hn1, htok1, hl1⟩ := Src.step (tok := tNum idx) h
  obtain ⟨t2, h2, hsrc2⟩ := expectSeq_ok [tArrow] _ t1 hl1.src
  obtain ⟨t3, h3, hl3, htok3⟩ := expectAnyOf_ok (ks := [.kMessage, .kStruct]) (tok := ⟨.kStruct, kwStruct⟩) (by decide) hsrc2
  obtain ⟨t4, h4, hl4⟩ := readStructX_ok fuel [9, 9] name fs hok hfu r t3 hl3.src
  have h1fu : 1 ≤ fuel := by have := fieldsLen_ge fs; omega
  obtain ⟨t5, hl5, hk5, he5⟩ := member_tail fuel h1fu hl4
    (readUnion.loop fuel f (acc ++ [(n, { body := UBody.st { name := name, comment := joinLines st.comments,
                                                              fields := fs.map fieldOfC },
                                          tags := st.tags, depMsg := st.depMsg, deprecated := st.isDep })]) {})
  refine ⟨t5, hl5, hk5, ?_⟩
  have hne : (TK.newline == TK.closeCurly) = false := by decide
  have hk1 : t1.nextTok.kind = .intLit := by rw [htok1]
  have hk3 : (t3.nextTok.kind == TK.kMessage) = false := by rw [htok3]; rfl
  simp only [List.map_cons, List.map_nil] at h2
  rw [readUnion.loop]
  simp only [bind_pTok, hcur, hne, Bool.false_eq_true, if_false]
  rw [bind_pNext _ hn1]
  simp only [Bool.not_true, Bool.false_eq_true, if_false, bind_pTok, hk1, htok1, hidx, hfresh]
  rw [bind_ok h2, bind_ok h3, bind_pTok]
  simp only [hk3, Bool.false_eq_true, if_false]
  rw [bind_bind_ok h4, bind_pure]
  exact he5

/-- a message member `idx -> message Name { … }`: one iteration of the body loop -/
theorem member_message_iter (fuel f : Nat) (acc : List (Nat × UnionField)) (st : BodySt) (idx : Str) (n : Nat)
    (hidx : parseUint idx false 8 = some n) (hfresh : acc.any (·.1 == n) = false) (name : Str) (gs : List CMsgField)
    (hok : ∀ g ∈ gs, CMsgFieldOk g) (hnd : (gs.map (fun g => idxVal g.idx)).Nodup) (hfu : msgFieldsLen gs ≤ fuel)
    (r : List Lexeme) (t : TR)
    (h : Src (toks (⟨[9], tNum idx⟩ :: ⟨[32], tArrow⟩ :: messageLex [32] [9, 9] name gs r)) t)
    (hcur : (t.nextTok.kind == TK.closeCurly) = false) :
    ∃ t', Lex (toks r) t' ∧ t'.nextTok.kind = .newline ∧
      readUnion.loop fuel (f + 1) acc st t =
        readUnion.loop fuel f (acc ++ [(n, { body := UBody.msg { name := name, comment := joinLines st.comments,
                                                                  fields := gs.map msgFieldOf },
                                             tags := st.tags, depMsg := st.depMsg, deprecated := st.isDep })]) {} t' := by
  simp only [messageLex] at h
  obtain ⟨t1, hn1, htok1, hl1⟩ := Src.step (tok := tNum idx) h
  obtain ⟨t2, h2, hsrc2⟩ := expectSeq_ok [tArrow] _ t1 hl1.src
  obtain ⟨t3, h3, hl3, htok3⟩ := expectAnyOf_ok (ks := [.kMessage, .kStruct]) (tok := ⟨.kMessage, kwMessage⟩) (by decide) hsrc2
  obtain ⟨t4, h4, hl4⟩ := readMessage_ok fuel [9, 9] name gs hok hnd hfu r t3 hl3.src
  have h1fu : 1 ≤ fuel := by have := msgFieldsLen_ge gs; omega
  obtain ⟨t5, hl5, hk5, he5⟩ := member_tail fuel h1fu hl4
    (readUnion.loop fuel f (acc ++ [(n, { body := UBody.msg { name := name, comment := joinLines st.comments,
                                                               fields := gs.map msgFieldOf },
                                          tags := st.tags, depMsg := st.depMsg, deprecated := st.isDep })]) {})
  refine ⟨t5, hl5, hk5, ?_⟩
  have hne : (TK.newline == TK.closeCurly) = false := by decide
  have hk1 : t1.nextTok.kind = .intLit := by rw [htok1]
  have hk3 : (t3.nextTok.kind == TK.kMessage) = true := by rw [htok3]; rfl
  simp only [List.map_cons, List.map_nil] at h2
  rw [readUnion.loop]
  simp only [bind_pTok, hcur, hne, Bool.false_eq_true, if_false]
  rw [bind_pNext _ hn1]
  simp only [Bool.not_true, Bool.false_eq_true, if_false, bind_pTok, hk1, htok1, hidx, hfresh]
  rw [bind_ok h2, bind_ok h3, bind_pTok]
  simp only [hk3, if_true]
  rw [bind_bind_ok h4, bind_pure]
  exact he5

/-- the body of a member without its doc and attribute lines, and what it denotes under the pending state `st` -/
def memberBodyLex : CUMember → List Lexeme → List Lexeme
  | .struct _ _ idx name fields, r => ⟨[9], tNum idx⟩ :: ⟨[32], tArrow⟩ :: structLex [32] [9, 9] name fields r
  | .message _ _ idx name fields, r => ⟨[9], tNum idx⟩ :: ⟨[32], tArrow⟩ :: messageLex [32] [9, 9] name fields r

theorem memberLex_eq (m : CUMember) (r : List Lexeme) :
    memberLex m r = docLex [9] m.doc (depLex [9] m.dep (memberBodyLex m r)) := by
  cases m <;> rfl

def memberUnder (st : BodySt) : CUMember → UnionField
  | .struct _ _ _ name fields =>
    { body := UBody.st { name := name, comment := joinLines st.comments, fields := fields.map fieldOfC },
      tags := st.tags, depMsg := st.depMsg, deprecated := st.isDep }
  | .message _ _ _ name fields =>
    { body := UBody.msg { name := name, comment := joinLines st.comments, fields := fields.map msgFieldOf },
      tags := st.tags, depMsg := st.depMsg, deprecated := st.isDep }

theorem memberLen_ge (m : CUMember) : m.doc.length + depLen m.dep + 8 ≤ memberLen m := by
  cases m with
  | struct c d i n fs => have := fieldsLen_ge fs; simp [memberLen, CUMember.doc, CUMember.dep]; omega
  | message c d i n gs => have := msgFieldsLen_ge gs; simp [memberLen, CUMember.doc, CUMember.dep]; omega

theorem member_iter (fuel f : Nat) (acc : List (Nat × UnionField)) (st : BodySt) (m : CUMember) (hm : CUMemberOk m)
    (hfu : memberLen m ≤ fuel) (hfresh : acc.any (·.1 == idxVal m.idx) = false) (r : List Lexeme) (t : TR)
    (h : Src (toks (memberBodyLex m r)) t) (hcur : (t.nextTok.kind == TK.closeCurly) = false) :
    ∃ t', Lex (toks r) t' ∧ t'.nextTok.kind = .newline ∧
      readUnion.loop fuel (f + 1) acc st t =
        readUnion.loop fuel f (acc ++ [(idxVal m.idx, memberUnder st m)]) {} t' := by
  cases m with
  | struct doc dep idx name fs =>
    obtain ⟨_, _, _, h3, _, h5⟩ := hm
    obtain ⟨n, hn⟩ := Option.isSome_iff_exists.1 h3
    have hv : idxVal idx = n := by simp [idxVal, hn]
    simp only [CUMember.idx, hv] at hfresh ⊢
    exact member_struct_iter fuel f acc st idx n hn hfresh name fs h5 (by simp only [memberLen] at hfu; omega) r t h hcur
  | message doc dep idx name gs =>
    obtain ⟨_, _, _, h3, _, h5, h6⟩ := hm
    obtain ⟨n, hn⟩ := Option.isSome_iff_exists.1 h3
    have hv : idxVal idx = n := by simp [idxVal, hn]
    simp only [CUMember.idx, hv] at hfresh ⊢
    exact member_message_iter fuel f acc st idx n hn hfresh name gs h5 h6 (by simp only [memberLen] at hfu; omega) r t h
      hcur

/-- `// doc` lines in a union body: one iteration each -/
theorem union_doc_iter (fuel : Nat) : ∀ (cs : List Str) (f : Nat) (acc : List (Nat × UnionField))
    (st : BodySt) (r : List Lexeme) (t : TR), (∀ c ∈ cs, bodyDocOk c) → Src (toks (docLex [9] cs r)) t →
    (t.nextTok.kind == TK.closeCurly) = false →
    ∃ t', Src (toks r) t' ∧ (t'.nextTok.kind == TK.closeCurly) = false ∧
      readUnion.loop fuel (f + cs.length) acc st t =
        readUnion.loop fuel f acc { st with comments := st.comments ++ cs, tags := st.tags ++ tagsOf cs } t'
  | [], f, acc, st, r, t, _, h, hcur => ⟨t, h, hcur, by rw [bodySt_doc_nil]; rfl⟩
  | c :: cs, f, acc, st, r, t, hc, h, hcur => by
    simp only [docLex] at h
    obtain ⟨t1, hn, htok, hl⟩ := Src.step (tok := tCmt c) h
    have hk1 : t1.nextTok.kind = .lineComment := by rw [htok]
    obtain ⟨t', hsrc, hcur', he⟩ := union_doc_iter fuel cs f acc { st with comments := st.comments ++ [c], tags := st.tags ++ tagsOf [c] } r t1
      (fun x hx => hc x (List.mem_cons_of_mem _ hx)) hl.src (by rw [hk1]; rfl)
    refine ⟨t', hsrc, hcur', ?_⟩
    rw [show f + (c :: cs).length = (f + cs.length) + 1 by simp; omega, readUnion.loop]
    simp only [bind_pTok, hcur, Bool.false_eq_true, if_false]
    rw [bind_pNext _ hn]
    simp only [Bool.not_true, Bool.false_eq_true, if_false, bind_pTok, hk1, htok]
    rw [bind_ok (noteLineComment_ok st (hc c (List.mem_cons_self)) t1), he]
    simp only [List.append_assoc, List.singleton_append, tagsOf_cons c cs]

theorem membersLoop_ok (fuel : Nat) : ∀ (ms : List CUMember) (f : Nat) (acc : List (Nat × UnionField))
    (r : List Lexeme) (t : TR), (∀ m ∈ ms, CUMemberOk m) → (∀ m ∈ ms, ∀ x ∈ acc, x.1 ≠ idxVal m.idx) →
    (ms.map (fun m => idxVal m.idx)).Nodup → membersLen ms ≤ f → membersLen ms ≤ fuel →
    Src (toks (membersLex ms r)) t → (t.nextTok.kind == TK.closeCurly) = false →
    ∃ t', readUnion.loop fuel f acc {} t = .ok (acc ++ ms.map memberOf) t' ∧ Lex (toks (⟨[], tNl⟩ :: r)) t'
  | [], f, acc, r, t, _, _, _, hf, _, h, hcur => by
    obtain ⟨f, rfl⟩ : ∃ g, f = g + 2 := ⟨f - 2, by simp [membersLen] at hf; omega⟩
    obtain ⟨t1, hn, htok, hl⟩ := Src.step (tok := tClose) (l := toks (⟨[], tNl⟩ :: r)) h
    refine ⟨t1, ?_, hl⟩
    have hk1 : t1.nextTok.kind = .closeCurly := by rw [htok]
    rw [show f + 2 = (f + 1) + 1 from rfl, readUnion.loop]
    simp only [bind_pTok, hcur, Bool.false_eq_true, if_false]
    rw [bind_pNext _ hn]
    simp only [Bool.not_true, Bool.false_eq_true, if_false, bind_pTok, hk1]
    rw [readUnion.loop]
    simp only [bind_pTok, hk1, beq_self_eq_true, if_true, List.map_nil, List.append_nil]
    rfl
  | m :: ms, f, acc, r, t, hok, hfresh, hnd, hf, hfu, h, hcur => by
    have hm := hok m (List.mem_cons_self)
    have hml := memberLen_ge m
    have hany : acc.any (·.1 == idxVal m.idx) = false := by
      rw [List.any_eq_false]
      intro x hx
      have := hfresh m (List.mem_cons_self) x hx
      simpa using this
    simp only [List.map_cons, List.nodup_cons] at hnd
    have hfresh' : ∀ m' ∈ ms, ∀ x ∈ acc ++ [memberOf m], x.1 ≠ idxVal m'.idx := by
      intro m' hm' x hx
      rcases List.mem_append.1 hx with hx | hx
      · exact hfresh m' (List.mem_cons_of_mem _ hm') x hx
      · simp only [List.mem_singleton] at hx
        subst hx
        intro heq
        apply hnd.1
        simp only [memberOf] at heq
        rw [heq]
        exact List.mem_map.2 ⟨m', hm', rfl⟩
    simp only [membersLex, memberLex_eq] at h
    have hdocOk : ∀ c ∈ m.doc, bodyDocOk c := by
      cases m with
      | struct doc dep idx name fs => exact hm.1
      | message doc dep idx name gs => exact hm.1
    have hdepOk : ∀ d, m.dep = some d → strBodyOk d = true := by
      cases m with
      | struct doc dep idx name fs => exact hm.2.1
      | message doc dep idx name gs => exact hm.2.1
    -- the doc lines
    obtain ⟨f, rfl⟩ : ∃ k, f = k + m.doc.length := ⟨f - m.doc.length, by simp only [membersLen] at hf; omega⟩
    obtain ⟨t0, hsrc0, hcur0, he0⟩ := union_doc_iter fuel m.doc f acc {} _ t hdocOk h hcur
    rw [he0]
    simp only [List.nil_append]
    cases hd : m.dep with
    | none =>
      rw [hd] at hsrc0
      simp only [depLex] at hsrc0
      obtain ⟨f, rfl⟩ : ∃ k, f = k + 1 := ⟨f - 1, by simp only [membersLen] at hf; omega⟩
      obtain ⟨t1, hl1, hk1, he1⟩ := member_iter fuel f acc { comments := m.doc, tags := tagsOf m.doc } m hm
        (by simp only [membersLen] at hfu; omega) hany _ t0 hsrc0 hcur0
      obtain ⟨t', h2, hl2⟩ := membersLoop_ok fuel ms f (acc ++ [memberOf m]) r t1
        (fun x hx => hok x (List.mem_cons_of_mem _ hx)) hfresh' hnd.2
        (by simp only [membersLen] at hf; omega) (by simp only [membersLen] at hfu; omega) hl1.src (not_close_of_nl hk1)
      refine ⟨t', ?_, hl2⟩
      rw [he1]
      simp only [List.map_cons, List.append_assoc, List.singleton_append] at h2 ⊢
      have hfd : memberOf m = (idxVal m.idx, memberUnder { comments := m.doc, tags := tagsOf m.doc } m) := by
        cases m <;> simp_all [memberOf, memberUnder, CUMember.dep, CUMember.doc, depMsgOf, docOf]
      rw [← hfd]
      exact h2
    | some d =>
      rw [hd] at hsrc0
      simp only [depLex] at hsrc0
      have hdl : depLen m.dep = 7 := by rw [hd]; rfl
      obtain ⟨f, rfl⟩ : ∃ k, f = k + 2 := ⟨f - 2, by simp only [membersLen] at hf; omega⟩
      obtain ⟨ta, hn0, htok0, hl0⟩ := Src.step (tok := tLB) hsrc0
      obtain ⟨t1, hd1, hl1, htok1⟩ := readDeprecated_ok (hdepOk d hd) hl0.src
      have hcur1 : (t1.nextTok.kind == TK.closeCurly) = false := by rw [htok1]; rfl
      obtain ⟨t2, hl2, hk2, he2⟩ := member_iter fuel f acc { comments := m.doc, tags := tagsOf m.doc, isDep := true, depMsg := d } m hm
        (by simp only [membersLen] at hfu; omega) hany _ t1 hl1.src hcur1
      obtain ⟨t', h3, hl3⟩ := membersLoop_ok fuel ms f (acc ++ [memberOf m]) r t2
        (fun x hx => hok x (List.mem_cons_of_mem _ hx)) hfresh' hnd.2
        (by simp only [membersLen] at hf; omega) (by simp only [membersLen] at hfu; omega) hl2.src (not_close_of_nl hk2)
      refine ⟨t', ?_, hl3⟩
      have hk0 : ta.nextTok.kind = .openSquare := by rw [htok0]
      rw [show f + 2 = (f + 1) + 1 from rfl, readUnion.loop]
      simp only [bind_pTok, hcur0, Bool.false_eq_true, if_false]
      rw [bind_pNext _ hn0]
      simp only [Bool.not_true, Bool.false_eq_true, if_false, bind_pTok, hk0]
      rw [bind_ok hd1]
      have hst : ({ ({ comments := m.doc, tags := tagsOf m.doc } : BodySt) with isDep := true, depMsg := d } : BodySt) =
          { comments := m.doc, tags := tagsOf m.doc, isDep := true, depMsg := d } := rfl
      rw [hst, he2]
      simp only [List.map_cons, List.append_assoc, List.singleton_append] at h3 ⊢
      have hfd : memberOf m = (idxVal m.idx, memberUnder { comments := m.doc, tags := tagsOf m.doc, isDep := true, depMsg := d } m) := by
        cases m <;> simp_all [memberOf, memberUnder, CUMember.dep, CUMember.doc, depMsgOf, docOf]
      rw [← hfd]
      exact h3

/-- readUnion (the `union` keyword has been read) -/
theorem readUnion_ok (fuel : Nat) (name : Str) (ms : List CUMember) (hok : ∀ m ∈ ms, CUMemberOk m)
    (hnd : (ms.map (fun m => idxVal m.idx)).Nodup) (hfu : membersLen ms ≤ fuel) (r : List Lexeme) (t : TR)
    (h : Src (tId name :: tOpen :: tNl :: toks (membersLex ms r)) t) :
    ∃ t', readUnion fuel t = .ok { name := name, fields := ms.map memberOf } t' ∧
      Lex (toks (⟨[], tNl⟩ :: r)) t' := by
  obtain ⟨t1, h1, hsrc1⟩ := expectSeq_ok [tId name, tOpen] _ t h
  obtain ⟨t2, h2, hl2, htok2⟩ := optNewline_ok (tok := tNl) rfl hsrc1
  obtain ⟨t', h3, hl3⟩ := membersLoop_ok fuel ms fuel [] r t2 hok (fun _ _ x hx => by cases hx) hnd hfu hfu hl2.src
    (by rw [htok2]; rfl)
  refine ⟨t', ?_, hl3⟩
  simp only [List.map_cons, List.map_nil] at h1
  simp only [readUnion]
  rw [bind_ok h1, bind_ok h2, bind_ok h3]
  rfl

/-- a union and the line break after `}`: two iterations -/
theorem top_union (fuel f : Nat) (F : File) (cs : List Str) (code : Nat) (name : Str) (ms : List CUMember)
    (hok : ∀ m ∈ ms, CUMemberOk m) (hnd : (ms.map (fun m => idxVal m.idx)).Nodup) (hfu : membersLen ms ≤ fuel)
    {r : List Lexeme} {t : TR}
    (h : Src (toks (⟨[], ⟨.kUnion, kwUnion⟩⟩ :: ⟨[32], tId name⟩ :: ⟨[32], tOpen⟩ :: ⟨[], tNl⟩ :: membersLex ms r)) t) :
    ∃ t', Lex (toks r) t' ∧ readFileLoop fuel (f + 2) (opSt F cs code) t =
      readFileLoop fuel f (topSt { F with unions := F.unions ++
        [{ name := name, comment := joinLines cs, fields := ms.map memberOf, opCode := code }] }) t' := by
  obtain ⟨t1, hn, htok, hl⟩ := Src.step (tok := ⟨.kUnion, kwUnion⟩) h
  obtain ⟨t2, h2, hl2⟩ := readUnion_ok fuel name ms hok hnd hfu r t1 hl.src
  obtain ⟨t3, hl3, h3⟩ := loop_nl fuel f { F with unions := F.unions ++
      [{ name := name, comment := joinLines cs, fields := ms.map memberOf, opCode := code }] } hl2.src
  refine ⟨t3, hl3, ?_⟩
  have hk : t1.nextTok.kind = .kUnion := by rw [htok]
  rw [← h3, show f + 2 = (f + 1) + 1 from rfl, readFileLoop, bind_pNext _ hn]
  simp only [Bool.not_true, Bool.false_eq_true, if_false, bind_pTok, stepTop, hk]
  rw [bind_bind_ok h2, bind_pure]

/-! ### constants and imports -/

theorem goEscapesOk_plain : ∀ (body : Str), strBodyOk body = true → ∀ f, body.length < f → goEscapesOk f body = true
  | [], _, f, hf => by
    obtain ⟨f, rfl⟩ : ∃ g, f = g + 1 := ⟨f - 1, by simp at hf; omega⟩
    simp [goEscapesOk]
  | c :: body, hb, f, hf => by
    obtain ⟨f, rfl⟩ : ∃ g, f = g + 1 := ⟨f - 1, by simp at hf; omega⟩
    simp only [strBodyOk, List.all_cons, Bool.and_eq_true, decide_eq_true_eq, bne_iff_ne, ne_eq] at hb
    obtain ⟨⟨⟨⟨h1, h2⟩, h3⟩, h4⟩, h5⟩ := hb
    have ih := goEscapesOk_plain body (by simpa [strBodyOk] using h5) f (by simp at hf; omega)
    have c0 : (c == 0) = false := by
      apply beq_false_of_toNat; intro h; rw [h] at h1; simp at h1
    have c1 : (c == 0x0a) = false := by
      apply beq_false_of_toNat; intro h; rw [h] at h1; simp at h1
    have c2 : (c == 0x22) = false := by
      cases hb : c == 0x22 with
      | false => rfl
      | true => exact absurd (eq_of_beq hb) h4
    have c3 : (c != 0x5c) = true := by simpa using h3
    simp [goEscapesOk, c0, c1, c2, c3, ih]

theorem goStringLitOk_str {body : Str} (h : strBodyOk body = true) : goStringLitOk (34 :: (body ++ [34])) = true := by
  simp only [goStringLitOk]
  have h1 : (body ++ [34]).getLast? = some 34 := by simp
  have h2 : (body ++ [34]).dropLast = body := by simp
  rw [h1]
  simp only [h2, List.length_append, List.length_cons, List.length_nil]
  simp [goEscapesOk_plain body h (body.length + 0 + 1 + 1) (by omega)]

/-- the value of a constant, as `readConst` computes it from the type name and the value token -/
theorem const_value {v : CConstV} (hv : CConstVOk v) (k : Str → P Const) (t : TR) (htok : t.nextTok = constValTok v) :
    ((do let tk ← pTok
         let value ← (
           if isUintName (constTy v) || isIntName (constTy v) then
             (if tk.kind != .intLit then fail else pure tk.concrete)
           else if isFloatName (constTy v) then
             (match tk.kind with
               | .kInf => pure (strOf "math.Inf(1)")
               | .negInf => pure (strOf "math.Inf(-1)")
               | .kNaN => pure (strOf "math.NaN()")
               | .intLit => pure tk.concrete
               | .floatLit => pure tk.concrete
               | _ => fail)
           else if strEq (constTy v) "guid" then
             (if tk.kind != .strLit then fail
              else if ((trimQuotes tk.concrete).filter (· != 0x2d)).length != 32 then fail
              else pure tk.concrete)
           else if strEq (constTy v) "string" then
             (if tk.kind != .strLit then fail
              else if !goStringLitOk tk.concrete then fail
              else pure tk.concrete)
           else if strEq (constTy v) "bool" then
             (if tk.kind != .kTrue && tk.kind != .kFalse then fail else pure tk.concrete)
           else fail : P Str)
         k value) : P Const) t = k (constVal v) t := by
  rw [bind_pTok, htok]
  cases v with
  | int ty lit =>
    simp only [constTy, constValTok, constVal]
    rcases Bool.eq_false_or_eq_true (isUintName ty || isIntName ty) with h1 | h1
    · simp only [h1, if_true, bne_self_eq_false, Bool.false_eq_true, if_false, bind_pure]
    · have h2 : isFloatName ty = true := by
        have := hv.2.2
        rw [h1] at this
        simpa using this
      simp only [h1, Bool.false_eq_true, if_false, h2, if_true, bind_pure]
  | bool b =>
    have e1 : (isUintName kwBool || isIntName kwBool) = false := by decide
    have e2 : isFloatName kwBool = false := by decide
    have e3 : strEq kwBool "guid" = false := by decide
    have e4 : strEq kwBool "string" = false := by decide
    have e5 : strEq kwBool "bool" = true := by decide
    cases b <;>
      simp [constTy, constValTok, constVal, e1, e2, e3, e4, e5, bind_pure]
  | str body =>
    have e1 : (isUintName kwString || isIntName kwString) = false := by decide
    have e2 : isFloatName kwString = false := by decide
    have e3 : strEq kwString "guid" = false := by decide
    have e4 : strEq kwString "string" = true := by decide
    simp [constTy, constValTok, constVal, e1, e2, e3, e4, goStringLitOk_str hv, bind_pure]
  | float ty neg ip fp =>
    simp only [constTy, constValTok, constVal, hv.2.1, hv.2.2.1, Bool.false_eq_true, if_false, if_true, bind_pure]
  | inf ty =>
    simp only [constTy, constValTok, constVal, hv.2.1, hv.2.2, Bool.false_eq_true, if_false, if_true, bind_pure]
  | negInf ty =>
    simp only [constTy, constValTok, constVal, hv.2.1, hv.2.2, Bool.false_eq_true, if_false, if_true, bind_pure]
  | nan ty =>
    simp only [constTy, constValTok, constVal, hv.2.1, hv.2.2, Bool.false_eq_true, if_false, if_true, bind_pure]
  | guid body =>
    have e1 : (isUintName kwGuid || isIntName kwGuid) = false := by decide
    have e2 : isFloatName kwGuid = false := by decide
    have e3 : strEq kwGuid "guid" = true := by decide
    simp [constTy, constValTok, constVal, e1, e2, e3, trimQuotes_str hv.1, hv.2, bind_pure]

theorem float_not_string {ty : Str} (h : isFloatName ty = true) : strEq ty "string" = false := by
  cases hs : strEq ty "string" with
  | false => rfl
  | true =>
    have hty : ty = strOf "string" := by simpa [strEq] using hs
    rw [hty] at h
    revert h
    decide

/-- how `readConst` ends: it swallows the line break after the `;`, or — at the very end of the input —
    leaves the tokenizer with the last token held back -/
inductive ConstEnd (r : List Lexeme) (t' : TR) : Prop
  | nl (r' : List Lexeme) : r = ⟨[], tNl⟩ :: r' → Lex (toks r') t' → ConstEnd r t'
  | eof (t1 : TR) : r = [] → Ok t1 → t1.inp = [] → t1.nextTok.kind = .semicolon → t' = { t1 with keep := true } →
      ConstEnd r t'

theorem readConst_ok (fuel : Nat) (name : Str) (v : CConstV) (hn : IdentOk name = true) (hv : CConstVOk v)
    (hfu : 1 ≤ fuel) (r : List Lexeme) (hr : r = [] ∨ ∃ r', r = ⟨[], tNl⟩ :: r') (t : TR)
    (h : Src (tId (constTy v) :: tId name :: tEq :: constValTok v :: tSemi :: toks r) t) :
    ∃ t', readConst fuel t = .ok { simpleType := constTy v, name := name, value := constVal v } t' ∧ ConstEnd r t' := by
  obtain ⟨fu, rfl⟩ : ∃ g, fuel = g + 1 := ⟨fuel - 1, by omega⟩
  obtain ⟨t1, h1, hsrc1⟩ := expectSeq_ok [tId (constTy v), tId name, tEq] _ t h
  obtain ⟨t2, hn2, htok2, hl2⟩ := Src.step (tok := constValTok v) hsrc1
  obtain ⟨t3, h3, hl3, htok3⟩ := expectSeq_last [] tSemi _ t2 hl2.src
  simp only [List.map_cons, List.map_nil, List.nil_append] at h1 h3
  have hmain : ∀ t', ((skipEolComments (fu + 1) >>= fun _ => optNewline >>= fun _ =>
        (pure { simpleType := constTy v, name := name, value := constVal v } : P Const)) t3 =
          .ok { simpleType := constTy v, name := name, value := constVal v } t') →
      readConst (fu + 1) t = .ok { simpleType := constTy v, name := name, value := constVal v } t' := by
    intro t' he
    simp only [readConst]
    rw [bind_ok h1, bind_pNext _ hn2]
    simp only [Bool.not_true, Bool.false_eq_true, if_false]
    refine (const_value hv _ t2 htok2).trans ?_
    rw [bind_ok h3]
    exact he
  rcases hr with rfl | ⟨r', rfl⟩
  · -- the very end of the input
    obtain ⟨t4, hn4, hok4, hinp4, htok4⟩ := hl3.src.stop
    refine ⟨{ t4 with keep := true }, hmain _ ?_, ConstEnd.eof t4 rfl hok4 hinp4 (by rw [htok4, htok3]) rfl⟩
    have hn5 := next_at_end t4 hok4 hinp4
    have hk4 : (t4.nextTok.kind != TK.newline) = true := by rw [htok4, htok3]; rfl
    simp only [skipEolComments]
    rw [bind_bind_pNext _ _ hn4]
    simp only [Bool.not_false, if_true, bind_pure, optNewline]
    rw [bind_bind_pNext _ _ hn5, bind_bind_pTok]
    simp only [hk4, if_true]
    rfl
  · obtain ⟨t4, h4, hsrc4, _⟩ := skipEol_ok fu (tok := tNl) rfl hl3.src
    obtain ⟨t5, h5, hl5, _⟩ := optNewline_ok (tok := tNl) rfl hsrc4
    refine ⟨t5, hmain _ ?_, ConstEnd.nl r' rfl hl5⟩
    rw [bind_ok h4, bind_ok h5]
    rfl

/-- the number of top-level iterations a definition takes (`ds`: the definitions that follow) -/
def defIter (ds : CFile) : CDef → Nat
  | .struct op _ _ _ => (if op.isSome then 1 else 0) + 2
  | .message op _ _ => (if op.isSome then 1 else 0) + 2
  | .enum fl _ _ _ => (if fl then 1 else 0) + 2
  | .union op _ _ => (if op.isSome then 1 else 0) + 2
  | .const .. => if ds.isEmpty then 2 else 1
  | .import_ _ => 2

theorem defIter_le (ds : CFile) (d : CDef) : defIter ds d ≤ defLen d ∧ 1 ≤ defIter ds d := by
  cases d with
  | struct op ro name fs => cases op <;> simp [defIter, defLen, opLen] <;> omega
  | message op name fs => cases op <;> simp [defIter, defLen, opLen] <;> omega
  | enum fl name base os => cases fl <;> simp [defIter, defLen, flagsLen] <;> omega
  | union op name ms => cases op <;> simp [defIter, defLen, opLen] <;> omega
  | const name v => cases ds <;> simp [defIter, defLen]
  | import_ path => simp [defIter, defLen]

theorem fileLex_false_le : ∀ (ds : CFile) (nl : Bool), (fileLex false ds).length ≤ (fileLex nl ds).length
  | [], _ => by simp [fileLex]
  | d :: ds, nl => by cases h : (nl && d.doc.isEmpty) <;> simp [fileLex, h]

theorem def_step (fuel f : Nat) (F : File) (cs : List Str) (d : CDef) (ds : CFile) (hd : CDefOk d)
    (hfu : defLen d ≤ fuel) (hnext : d.isConst = true → ∀ d' ds', ds = d' :: ds' → d'.doc = [])
    (himp : d.isImport = true → cs = []) {t : TR}
    (h : Src (toks (defLex d (fileLex (nlAfter d) ds))) t) :
    ∃ t' nl', Src (toks (fileLex nl' ds)) t' ∧ (fileLex nl' ds).length ≤ (fileLex (nlAfter d) ds).length ∧
      readFileLoop fuel (f + defIter ds d) (docSt F cs) t = readFileLoop fuel f (topSt (addDefC F cs d)) t' := by
  cases d with
  | struct op ro name fs =>
    obtain ⟨h1, h2, h3⟩ := hd
    have hfs : fieldsLen fs ≤ fuel := by simp only [defLen] at hfu; omega
    simp only [defLex] at h
    cases op with
    | none =>
      simp only [opLex] at h
      obtain ⟨t', hl, he⟩ := top_struct fuel f F cs 0 ro name fs h3 hfs h
      exact ⟨t', _, hl.src, Nat.le_refl _, he⟩
    | some o =>
      obtain ⟨t1, hl1, he1⟩ := top_op fuel (f + 2) F cs (h1 o rfl) h
      obtain ⟨t', hl, he⟩ := top_struct fuel f F cs (opVal (some o)) ro name fs h3 hfs hl1.src
      refine ⟨t', _, hl.src, Nat.le_refl _, ?_⟩
      show readFileLoop fuel (f + 2 + 1) (docSt F cs) t = _
      rw [he1, he]
      rfl
  | message op name gs =>
    obtain ⟨h1, h2, h3, h4⟩ := hd
    have hfs : msgFieldsLen gs ≤ fuel := by simp only [defLen] at hfu; omega
    simp only [defLex] at h
    cases op with
    | none =>
      simp only [opLex] at h
      obtain ⟨t', hl, he⟩ := top_message fuel f F cs 0 name gs h3 h4 hfs h
      exact ⟨t', _, hl.src, Nat.le_refl _, he⟩
    | some o =>
      obtain ⟨t1, hl1, he1⟩ := top_op fuel (f + 2) F cs (h1 o rfl) h
      obtain ⟨t', hl, he⟩ := top_message fuel f F cs (opVal (some o)) name gs h3 h4 hfs hl1.src
      refine ⟨t', _, hl.src, Nat.le_refl _, ?_⟩
      show readFileLoop fuel (f + 2 + 1) (docSt F cs) t = _
      rw [he1, he]
      rfl
  | enum fl name base os =>
    obtain ⟨h1, h2, h3⟩ := hd
    simp only [defLex] at h
    cases fl with
    | false =>
      simp only [flagsLex] at h
      obtain ⟨t', hl, he⟩ := top_enum fuel f F cs false name base os h2 h3 (by simp only [defLen] at hfu; omega) h
      exact ⟨t', _, hl.src, Nat.le_refl _, he⟩
    | true =>
      obtain ⟨t1, hl1, he1⟩ := top_flags fuel (f + 2) F cs h
      obtain ⟨t', hl, he⟩ := top_enum fuel f F cs true name base os h2 h3 (by simp only [defLen] at hfu; omega) hl1.src
      refine ⟨t', _, hl.src, Nat.le_refl _, ?_⟩
      show readFileLoop fuel (f + (1 + 2)) (docSt F cs) t = _
      rw [show f + (1 + 2) = f + 2 + 1 by omega, he1, he]
  | union op name ms =>
    obtain ⟨h1, h2, h3, h4⟩ := hd
    have hfs : membersLen ms ≤ fuel := by simp only [defLen] at hfu; omega
    simp only [defLex] at h
    cases op with
    | none =>
      simp only [opLex] at h
      obtain ⟨t', hl, he⟩ := top_union fuel f F cs 0 name ms h3 h4 hfs h
      exact ⟨t', _, hl.src, Nat.le_refl _, he⟩
    | some o =>
      obtain ⟨t1, hl1, he1⟩ := top_op fuel (f + 2) F cs (h1 o rfl) h
      obtain ⟨t', hl, he⟩ := top_union fuel f F cs (opVal (some o)) name ms h3 h4 hfs hl1.src
      refine ⟨t', _, hl.src, Nat.le_refl _, ?_⟩
      show readFileLoop fuel (f + 2 + 1) (docSt F cs) t = _
      rw [he1, he]
      rfl
  | import_ path =>
    have hcs := himp rfl
    subst hcs
    simp only [defLex] at h
    obtain ⟨t1, hn, htok, hl⟩ := Src.step (tok := ⟨.kImport, kwImport⟩) h
    obtain ⟨t2, h2, hsrc2⟩ := expectSeq_ok [tStr path] _ t1 hl.src
    obtain ⟨t3, hl3, h3⟩ := loop_nl fuel f (addDefC F [] (.import_ path)) hsrc2
    refine ⟨t3, _, hl3.src, Nat.le_refl _, ?_⟩
    have hk : t1.nextTok.kind = .kImport := by rw [htok]
    simp only [List.map_cons, List.map_nil] at h2
    show readFileLoop fuel (f + 1 + 1) (docSt F []) t = _
    rw [← h3, readFileLoop, bind_pNext _ hn]
    simp only [Bool.not_true, Bool.false_eq_true, if_false, bind_pTok, stepTop, hk]
    rw [bind_bind_ok h2]
    simp only [List.headD_cons, unquote, plainQuoted_str hd, bind_bind_pure, bind_pure]
    rfl
  | const name v =>
    obtain ⟨h1, h2⟩ := hd
    simp only [defLex] at h
    obtain ⟨t1, hn, htok, hl⟩ := Src.step (tok := ⟨.kConst, kwConst⟩) h
    have hr : fileLex (nlAfter (.const name v)) ds = [] ∨
        ∃ r', fileLex (nlAfter (.const name v)) ds = ⟨[], tNl⟩ :: r' := by
      cases ds with
      | nil => exact Or.inl rfl
      | cons d' ds' =>
        have hdoc := hnext rfl d' ds' rfl
        exact Or.inr ⟨defLex d'.d (fileLex (nlAfter d'.d) ds'), by simp [fileLex, nlAfter, hdoc, docLex]⟩
    obtain ⟨t2, h2', hend⟩ := readConst_ok fuel name v h1 h2 (by simp only [defLen] at hfu; omega) _ hr t1 hl.src
    have hk : t1.nextTok.kind = .kConst := by rw [htok]
    -- the `const` iteration itself
    have hiter : ∀ g, readFileLoop fuel (g + 1) (docSt F cs) t =
        readFileLoop fuel g (topSt (addDefC F cs (.const name v))) t2 := by
      intro g
      rw [readFileLoop, bind_pNext _ hn]
      simp only [Bool.not_true, Bool.false_eq_true, if_false, bind_pTok, stepTop, hk, bne_self_eq_false]
      rw [bind_bind_ok h2']
      cases v with
      | int ty lit =>
        have hne : (strEq name "go_package" && strEq ty "string") = false ∨
            (strEq name "go_package" && strEq ty "string") = true := by
          cases (strEq name "go_package" && strEq ty "string") <;> simp
        rcases hne with hne | hne
        · simp only [constTy, hne, Bool.false_eq_true, if_false, bind_bind_pure, bind_pure, addDefC]
        · -- an integer constant of type `string` does not exist
          exfalso
          simp only [Bool.and_eq_true] at hne
          have hty : ty = strOf "string" := by simpa [strEq] using hne.2
          have := h2.2.2
          rw [hty] at this
          revert this
          decide
      | bool b =>
        have hne : strEq kwBool "string" = false := by decide
        simp only [constTy, hne, Bool.and_false, Bool.false_eq_true, if_false, bind_bind_pure, bind_pure, addDefC]
      | guid body =>
        have hne : strEq kwGuid "string" = false := by decide
        simp only [constTy, hne, Bool.and_false, Bool.false_eq_true, if_false, bind_bind_pure, bind_pure, addDefC]
      | float ty neg ip fp =>
        have hne : strEq ty "string" = false := float_not_string h2.2.2.1
        simp only [constTy, hne, Bool.and_false, Bool.false_eq_true, if_false, bind_bind_pure, bind_pure, addDefC]
      | inf ty =>
        have hne : strEq ty "string" = false := float_not_string h2.2.2
        simp only [constTy, hne, Bool.and_false, Bool.false_eq_true, if_false, bind_bind_pure, bind_pure, addDefC]
      | negInf ty =>
        have hne : strEq ty "string" = false := float_not_string h2.2.2
        simp only [constTy, hne, Bool.and_false, Bool.false_eq_true, if_false, bind_bind_pure, bind_pure, addDefC]
      | nan ty =>
        have hne : strEq ty "string" = false := float_not_string h2.2.2
        simp only [constTy, hne, Bool.and_false, Bool.false_eq_true, if_false, bind_bind_pure, bind_pure, addDefC]
      | str body =>
        have hst : strEq kwString "string" = true := by decide
        cases hgp : strEq name "go_package" with
        | false =>
          simp only [constTy, hst, Bool.and_true, hgp, Bool.false_eq_true, if_false, bind_bind_pure, bind_pure, addDefC]
        | true =>
          simp only [constTy, constVal, hst, Bool.and_true, hgp, if_true, plainQuoted_str h2, bind_bind_pure, bind_pure, addDefC,
            Option.getD_some]
    cases hend with
    | nl r' hr' hl' =>
      cases ds with
      | nil => simp [fileLex] at hr'
      | cons d' ds' =>
        refine ⟨t2, false, ?_, fileLex_false_le _ _, ?_⟩
        · have hdoc := hnext rfl d' ds' rfl
          have : fileLex false (d' :: ds') = r' := by
            simp only [fileLex, show nlAfter (CDef.const name v) = true from rfl, hdoc, List.isEmpty_nil, Bool.and_self,
              if_true, List.singleton_append, List.cons.injEq, true_and, docLex] at hr'
            simp only [fileLex, hdoc, Bool.false_and, Bool.false_eq_true, if_false, List.nil_append, docLex]
            exact hr'
          rw [this]; exact hl'.src
        · simpa [defIter] using hiter f
    | eof t3 hr' hok3 hinp3 hk3 ht2 =>
      cases ds with
      | cons d' ds' =>
        have hdoc := hnext rfl d' ds' rfl
        simp [fileLex, nlAfter, hdoc] at hr'
      | nil =>
        refine ⟨t3, false, ?_, Nat.le_refl _, ?_⟩
        · exact Or.inl ⟨hok3, t3, next_at_end t3 hok3 hinp3, hok3, hinp3, rfl⟩
        · show readFileLoop fuel (f + 1 + 1) (docSt F cs) t = _
          rw [hiter (f + 1), ht2, readFileLoop, bind_pNext _ (next_unNext t3 hok3.keep)]
          simp only [Bool.not_true, Bool.false_eq_true, if_false, bind_pTok, stepTop, hk3, bind_pure]

theorem fileLex_len (nl : Bool) (d : CTop) (ds : CFile) :
    (fileLex nl (d :: ds)).length =
      (if nl && d.doc.isEmpty then 1 else 0) + d.doc.length + defLen d.d + (fileLex (nlAfter d.d) ds).length := by
  cases h : (nl && d.doc.isEmpty) <;> simp [fileLex, h] <;> omega

theorem file_loop (fuel : Nat) : ∀ (ds : CFile) (nl : Bool) (F : File) (f : Nat) (t : TR), (∀ d ∈ ds, CTopOk d) →
    noDocAfterConst ds → (∀ d ∈ ds, defLen d.d ≤ fuel) → (fileLex nl ds).length < f → Src (toks (fileLex nl ds)) t →
    ∃ t', Ok t' ∧ readFileLoop fuel f (topSt F) t = .ok (ds.foldl addDef F) t'
  | [], nl, F, f, t, _, _, _, hf, h => by
    obtain ⟨f, rfl⟩ : ∃ g, f = g + 1 := ⟨f - 1, by omega⟩
    exact loop_end fuel f (topSt F) h
  | d :: ds, nl, F, f, t, hok, hnd, hfu, hf, h => by
    have hd := hok d (List.mem_cons_self)
    have hlen := fileLex_len nl d ds
    have hit := defIter_le ds d.d
    -- the empty line in front of the definition, if any
    have hstep : ∃ t0 f0, Src (toks (docLex [] d.doc (defLex d.d (fileLex (nlAfter d.d) ds)))) t0 ∧
        d.doc.length + defLen d.d + (fileLex (nlAfter d.d) ds).length < f0 ∧
        readFileLoop fuel f (topSt F) t = readFileLoop fuel f0 (topSt F) t0 := by
      cases hsep : (nl && d.doc.isEmpty) with
      | false => exact ⟨t, f, by simpa [fileLex, hsep] using h, by simp [hsep] at hlen; omega, rfl⟩
      | true =>
        obtain ⟨f, rfl⟩ : ∃ g, f = g + 1 := ⟨f - 1, by omega⟩
        simp only [fileLex, hsep, if_true, List.singleton_append] at h
        obtain ⟨t0, hl0, he0⟩ := loop_nl fuel f F
          (rest := toks (docLex [] d.doc (defLex d.d (fileLex (nlAfter d.d) ds)))) h
        exact ⟨t0, f, hl0.src, by simp [hsep] at hlen; omega, he0⟩
    obtain ⟨t0, f0, hsrc0, hf0, he0⟩ := hstep
    -- the doc lines
    obtain ⟨f1, rfl⟩ : ∃ g, f0 = g + d.doc.length := ⟨f0 - d.doc.length, by omega⟩
    obtain ⟨ta, hsrca, hea⟩ := top_doc_iter fuel F d.doc f1 [] _ t0 hd.1 hsrc0
    obtain ⟨f2, rfl⟩ : ∃ g, f1 = g + defIter ds d.d := ⟨f1 - defIter ds d.d, by omega⟩
    have hnext : d.d.isConst = true → ∀ d' ds', ds = d' :: ds' → d'.doc = [] := by
      intro hc d' ds' hds
      subst hds
      exact hnd.1 hc
    have hnd' : noDocAfterConst ds := by
      cases ds with
      | nil => trivial
      | cons d' ds' => exact hnd.2
    obtain ⟨t1, nl', hsrc1, hle, he1⟩ := def_step fuel f2 F ([] ++ d.doc) d.d ds hd.2.2 (hfu d (List.mem_cons_self)) hnext
      (fun hi => by simp [hd.2.1 hi]) hsrca
    obtain ⟨t', hok', he'⟩ := file_loop fuel ds nl' (addDef F d) f2 t1
      (fun x hx => hok x (List.mem_cons_of_mem _ hx)) hnd' (fun x hx => hfu x (List.mem_cons_of_mem _ hx))
      (by have := hit.1; omega) hsrc1
    refine ⟨t', hok', ?_⟩
    rw [he0]
    show readFileLoop fuel (f2 + defIter ds d.d + d.doc.length) (docSt F []) t0 = _
    rw [hea, he1]
    simp only [List.nil_append, addDef] at he' ⊢
    rw [he']
    rfl

theorem defLen_mem : ∀ {ds : CFile} {d : CTop} (nl : Bool), d ∈ ds → defLen d.d ≤ (fileLex nl ds).length
  | x :: ds, d, nl, h => by
    have hlen := fileLex_len nl x ds
    rcases List.mem_cons.1 h with rfl | h
    · omega
    · have := defLen_mem (nlAfter x.d) h; omega

/-- ReadFile returns exactly the denoted `File` on every admissible layout of a well-formed schema. -/
theorem readFile_schema (f : CFile) (hf : CFileOkP f) (w : Nat → List Byte) (hw : LayoutOk w (fileLex false f)) :
    readFile (laidOutF w f) false = .ok (denote f) := by
  have hlex := lex_schema f hf w hw (mkTR (laidOutF w f) false) (mkTR_ok _) rfl
  have hlen : (fileLex false f).length ≤ (laidOutF w f).length :=
    render_len w _ 0 (fileLex_wf f hf.1 false).lexsOk.toks
  obtain ⟨t', hok, h⟩ := file_loop (2 * (laidOutF w f).length + 4) f false {} (2 * (laidOutF w f).length + 4)
    (mkTR (laidOutF w f) false) hf.1 hf.2 (fun d hd => by have := defLen_mem false hd; omega) (by omega) hlex.src
  unfold readFile
  simp only [h, hok.pan, hok.na, Bool.false_eq_true, if_false]
  rfl

end Canon
end Bebop.Text
