import Bebop.Bytes
import Bebop.Generated.Facts
import Bebop.Wire
import Bebop.Slice
import Bebop.Stream
import Bebop.Proofs.Enc
import Bebop.Proofs.RoundTrip
import Bebop.Proofs.NoPanic
