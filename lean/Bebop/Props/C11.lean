/-
  C11  The parsed File says exactly what the schema text says.

  The full statement is `C11_statement` below: for every schema AST of the Spec (Bebop.Text.Grammar) and every
  permitted layout, the parser returns exactly the File the AST denotes. It is NOT proved in this generality
  (see DESIGN.md §7 and §12); it is decided on generated ASTs × layouts by the correspondence engine, for the
  real ReadFile and for the model. What is proved:
  * the value-carrying parts of the parser agree with the Spec for all inputs: integer literals of enum values,
    indices and opcodes (both directions), evaluated [flags] expressions, four-character opcodes;
  * the token tree and keyword table the tokenizer model uses are the regenerated ones;
  * the parser-inverts-printer theorem for the struct sub-language in canonical layout, for any number of
    structs, fields and any identifiers (`C11_structs_canonical_partial`, Bebop/Props/Canon.lean) — when present.
-/
import Bebop.Props.C15
import Bebop.Props.C10
import Bebop.Props.Canon
import Bebop.Text.Grammar

namespace Bebop.Text

/-- The property at full strength (a definition, not a theorem). -/
def C11_statement : Prop :=
  ∀ (layout : Nat → Nat) (src : SrcFile) (f : File), toFile src = some f →
    readFile (print layout src) false = .ok f

/-- Enum values, message indices and integer opcodes: what the parser computes with Go's strconv is the
    Spec's value of the literal, for every width. -/
theorem C11_integer_literals_partial (t : Str) (bits : Nat) (hc : CanonicalLit t) :
    (∀ n, parseUint t true bits = some n → litValue t = some (n : Int)) ∧
    (∀ v, NoPlus t → parseInt t true bits = some v → litValue t = some v) :=
  ⟨fun n h => (parseUint_litValue t bits n hc h).1, fun v hp h => (parseInt_litValue t bits v hc hp h).1⟩

/-- Evaluated [flags] expressions: the value stored in the File is the Spec's value of the expression
    (under the in-range guard of C15). -/
theorem C11_flags_values_partial (bits : Nat) (unsigned : Bool) (hb : bits ∈ [8, 16, 32, 64])
    (opts : List EnumOption) (env : List (Str × Int)) (ha : EnvAgrees unsigned opts env)
    (e : Expr) (ho : OpsOk e) (hr : AllInRange bits unsigned env (toSpec e)) (v : Int)
    (hv : specEval env (toSpec e) = some v) : evalExpr bits unsigned opts e = some v :=
  evalExpr_eq_specEval bits unsigned hb opts env ha e ho hr v hv

/-- The tokenizer model's tables are the ones in tokenize.go now. -/
theorem C11_tokenizer_tables_partial :
    Facts.tokenTreeAdds.filter (fun e => (simpleKindOfName e.2).isNone || e.1.length != 1) = multiByteShape ∧
    Facts.tokenTreeSkips = [32, 9, 13] ∧
    Facts.keywordTable.all (fun e => (keywordKind (strOf e.1)).isSome) = true :=
  C10_token_tree_as_modelled

/-! ### The parser inverts the printer (Bebop/Props/Canon.lean)

  `CFile` is a schema AST covering: structs (readonly, opcode, deprecated fields, doc comments, trailing
  comments), every field type (`T`, `T[]…`, `array[T]`, `map[K, V]`, nested), messages, enums (typed base,
  decimal / hex / negative values, `[flags]` with literal members), unions with nested struct / message bodies,
  integer / bool / string consts (incl. go_package), imports, mixed in any order, any number of definitions,
  fields and members, any identifiers. `denote f` is the File it denotes; `laidOutF w f` its text under ANY
  layout `w` (an arbitrary run of spaces / tabs / CRs before every token, non-empty where a separator is
  needed); `canonTextF f` is the formatter's layout. Outside the sub-language: [flags] expressions, block
  comments, tag comments, float / guid consts, trailing comments other than after struct fields. -/

/-- For every schema of the sub-language and EVERY layout of its text, ReadFile (model) returns exactly the
    File the schema denotes: every definition, field, type expression, index, enum value, const, import,
    opcode, readonly marker, deprecation and doc comment, attached where it belongs, in source order — and the
    result does not depend on horizontal whitespace or CRLF line ends. -/
theorem C11_parser_returns_denoted_file_partial (f : CFile) (hf : CFileOk f) (w : Nat → List Byte)
    (hw : LayoutOk w (fileLex false f)) : readFile (laidOutF w f) false = .ok (denote f) :=
  C11_schema_layout_partial f hf w hw

/-- Layout independence as a statement about two layouts of the same schema. -/
theorem C11_layout_independent_partial (f : CFile) (hf : CFileOk f) (w₁ w₂ : Nat → List Byte)
    (h₁ : LayoutOk w₁ (fileLex false f)) (h₂ : LayoutOk w₂ (fileLex false f)) :
    readFile (laidOutF w₁ f) false = readFile (laidOutF w₂ f) false := by
  rw [C11_schema_layout_partial f hf w₁ h₁, C11_schema_layout_partial f hf w₂ h₂]

end Bebop.Text
