/-
  Canon/Embed: the struct-only sub-language of Canon/Defs.lean is the special case of the extended
  sub-language: same canonical text, same denotation, well-formedness carries over.
-/
import Bebop.Proofs.Canon.LangWF

namespace Bebop.Text

/-- a struct of the first sub-language as a definition of the extended one -/
def CTop.ofStruct (s : CStruct) : CTop :=
  { doc := [], d := .struct none false s.name (s.fields.map fun f => { dep := none, ty := .name f.1 0, name := f.2 }) }

namespace Canon

theorem fieldsText_ofStruct : ∀ (fs : List (Str × Str)),
    fieldsText [9] (fs.map fun f => ({ dep := none, ty := .name f.1 0, name := f.2 } : CField)) =
      (fs.map fieldText).flatten ++ [125, 10]
  | [] => by simp [fieldsText]
  | f :: fs => by
    simp [fieldsText, cmtText, depText, typeText, sufText, trailText, fieldText, fieldsText_ofStruct fs]

theorem defText_ofStruct (s : CStruct) : defText (CTop.ofStruct s).d = structText s := by
  simp [CTop.ofStruct, defText, opText, structText, fieldsText_ofStruct]

theorem fileText_ofStructs : ∀ (ss : List CStruct) (nl : Bool),
    fileText nl (ss.map CTop.ofStruct) = (if nl && !ss.isEmpty then [10] else []) ++ canonText ss
  | [], nl => by simp [fileText, canonText]
  | s :: ss, nl => by
    have ih := fileText_ofStructs ss true
    have hd : (CTop.ofStruct s).doc = [] := rfl
    have hn : nlAfter (CTop.ofStruct s).d = true := rfl
    simp only [List.map_cons, fileText, hd, hn, cmtText, List.isEmpty_nil, Bool.and_true, defText_ofStruct, ih]
    cases ss with
    | nil => cases nl <;> simp [canonText]
    | cons s' r => cases nl <;> simp [canonText]

/-- the canonical text of the first sub-language is the canonical text of its embedding -/
theorem canonTextF_ofStructs (ss : List CStruct) : canonTextF (ss.map CTop.ofStruct) = canonText ss := by
  rw [canonTextF_eq_fileText, fileText_ofStructs]
  simp

theorem foldl_addDef_ofStructs : ∀ (ss : List CStruct) (F : File),
    (ss.map CTop.ofStruct).foldl addDef F = { F with structs := F.structs ++ ss.map cstructOf }
  | [], F => by simp
  | s :: ss, F => by
    simp only [List.map_cons, List.foldl_cons, foldl_addDef_ofStructs ss]
    simp [addDef, addDefC, CTop.ofStruct, cstructOf, fieldOfC, docOf, joinLines, depMsgOf, ftOf, wrapArr, opVal,
      Function.comp_def, tagsOf]

/-- the denotation of the first sub-language is the denotation of its embedding -/
theorem denote_ofStructs (ss : List CStruct) : denote (ss.map CTop.ofStruct) = fileOf ss := by
  simp [denote, foldl_addDef_ofStructs, fileOf]

theorem noDocAfterConst_ofStructs : ∀ (ss : List CStruct), noDocAfterConst (ss.map CTop.ofStruct)
  | [] => trivial
  | [_] => trivial
  | s :: s' :: r => ⟨fun _ => rfl, noDocAfterConst_ofStructs (s' :: r)⟩

theorem cfileOk_ofStructs (ss : List CStruct) (h : ∀ s ∈ ss, CStructOk s) : CFileOk (ss.map CTop.ofStruct) := by
  have hmoved : ∀ d ∈ ss.map CTop.ofStruct, d.d.noMovedComments := by
    intro d hd
    obtain ⟨s, _, rfl⟩ := List.mem_map.1 hd
    trivial
  refine ⟨⟨?_, noDocAfterConst_ofStructs ss⟩, hmoved⟩
  intro d hd
  obtain ⟨s, hs, rfl⟩ := List.mem_map.1 hd
  have hs' := h s hs
  have hf : ∀ f ∈ (s.fields.map fun f => ({ dep := none, ty := .name f.1 0, name := f.2 } : CField)), CFieldOk f := by
    intro f hf
    obtain ⟨g, hg, rfl⟩ := List.mem_map.1 hf
    have := hs'.2 g hg
    exact ⟨fun c hc => (by cases hc), fun c hc => (by cases hc), fun m hm => (by cases hm), this.1, this.2⟩
  have hdef : CDefOk (CTop.ofStruct s).d := ⟨fun o ho => (by cases ho), hs'.1, hf⟩
  exact ⟨fun c hc => (by cases hc), fun _ => rfl, hdef⟩

end Canon
end Bebop.Text
