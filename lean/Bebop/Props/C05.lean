/-
  C05 — Stream decoding consumes exactly one record, however reads are chunked.
-/
import Bebop.Props.C01
import Bebop.Proofs.Chunks

namespace Bebop

/-- DecodeBebop takes from its reader exactly the bytes of one record — `Size()` of them — whatever
    follows on the stream, and returns the value. -/
theorem C05_consumes_exactly (env : Env) (hE : EnvOk env) (n : Nat) (v : Val) (fuel : Nat)
    (h : wt env (.ref n) v) (hf : rank v < fuel + 1) (rest : List Byte) :
    decodeStream (fuel+1) env n (enc v ++ rest) = .ok v (vsize v) := by
  have hr : Reads { data := enc v ++ rest, limits := [], err := false } (enc v) := ⟨rfl, ⟨rest, rfl⟩, by simp⟩
  have := sdec_enc env hE v (.ref n) (fuel+2) _ h (by omega) hr
  simp only [sdec] at this
  simp [decodeStream, this, RState.consume, length_enc]

/-- Reading records back-to-back from one stream: decode `ns.length` records one after another, each
    call starting where the previous one stopped. -/
def decodeMany (fuel : Nat) (env : Env) : List Nat → List Byte → Option (List Val × List Byte)
  | [], data => some ([], data)
  | n :: ns, data =>
    match decodeStream fuel env n data with
    | .ok v c =>
      match decodeMany fuel env ns (data.drop c) with
      | some (vs, rest) => some (v :: vs, rest)
      | none => none
    | _ => none

def encMany : List Val → List Byte
  | [] => []
  | v :: vs => enc v ++ encMany vs

/-- Any sequence of records written back-to-back is read back as the same sequence, leaving exactly
    what followed them. -/
theorem C05_sequences (env : Env) (hE : EnvOk env) (fuel : Nat) :
    ∀ (recs : List (Nat × Val)) (rest : List Byte),
      (∀ r ∈ recs, wt env (.ref r.1) r.2 ∧ rank r.2 < fuel + 1) →
      decodeMany (fuel+1) env (recs.map (·.1)) (encMany (recs.map (·.2)) ++ rest) = some (recs.map (·.2), rest)
  | [], rest, _ => by simp [decodeMany, encMany]
  | (n, v) :: recs, rest, h => by
    have h1 := h (n, v) (by simp)
    have ih := C05_sequences env hE fuel recs rest (fun r hr => h r (by simp [hr]))
    simp only [List.map_cons, decodeMany, encMany, List.append_assoc,
      C05_consumes_exactly env hE n v fuel h1.1 h1.2, ← length_enc, List.drop_left, ih]

/-- However the reader fragments its data, `io.ReadFull` — the only way the decoders read — returns the
    same bytes and leaves the same bytes unread as on the unfragmented stream. -/
theorem C05_chunking_irrelevant (n : Nat) (chunks : List (List Byte)) :
    (readFullChunks n chunks).1 = chunks.flatten.take n ∧
    (readFullChunks n chunks).2.flatten = chunks.flatten.drop n := readFullChunks_flat n chunks

/-- Non-vacuity: two example records back to back followed by garbage. -/
example : decodeMany 21 exEnv [3, 1] (encMany [exVal, exMsg] ++ [1, 2, 3]) = some ([exVal, exMsg], [1, 2, 3]) :=
  C05_sequences exEnv exEnv_ok 20 [(3, exVal), (1, exMsg)] [1, 2, 3] (by
    intro r hr
    simp at hr
    rcases hr with rfl | rfl
    · exact ⟨exVal_wt, by decide⟩
    · exact ⟨exMsg_wt, by decide⟩)

end Bebop
