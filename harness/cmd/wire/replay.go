package main

import (
	"bytes"
	"compress/gzip"
	"encoding/base64"
	"encoding/json"
	"fmt"
	"io"
	"os"
	"path/filepath"
	"strconv"
	"strings"
	"time"

	"verif/harness/internal/pkgbuild"
	"verif/harness/internal/schema"
	"verif/harness/internal/session"
)

// replayCase rebuilds the package of one failure record from /repo's current sources, re-runs its
// operation on the real code and on the model, and prints both. Exit status 1 when the recorded
// expectation is still not met.
func replayCase(path, modelPath, work string) int {
	b, err := os.ReadFile(path)
	if err != nil {
		fmt.Println("replay:", err)
		return 2
	}
	var f Failure
	if err := json.Unmarshal(b, &f); err != nil {
		fmt.Println("replay:", err)
		return 2
	}
	env := &schema.Env{Index: map[string]int{}}
	for _, l := range f.Env {
		t := strings.Fields(l)
		if len(t) == 2 && t[0] == "env" {
			var n int
			fmt.Sscan(t[1], &n)
			env.Defs = make([]schema.Def, n)
			continue
		}
		if err := env.ParseDefLine(t); err != nil {
			fmt.Println("replay: bad env line:", l, err)
			return 2
		}
	}
	for i := range env.Defs {
		if i < len(f.DefNames) {
			env.Defs[i].Name = f.DefNames[i]
			env.Index[f.DefNames[i]] = i
		}
	}
	builder, err := pkgbuild.NewBuilder(filepath.Join(work, "replay-pkgs"), 2)
	if err != nil {
		fmt.Println("replay:", err)
		return 2
	}
	defer builder.Cleanup()
	p := builder.Build("replay", f.Schema, env, f.Options)
	fmt.Printf("property %s, kind %s, def %s, options [%s]\nschema:\n%s\n", f.Property, f.Kind, f.Def, f.Options, f.Schema)
	if !p.BuildOK {
		fmt.Printf("the emitted package does not build (stage %s): %s\n", p.Stage, p.FirstErrorLine())
		return 1
	}
	if f.Kind == "build" {
		fmt.Println("the emitted package builds on the current tree")
		return 0
	}
	op := f.Op
	if f.OpGz != "" {
		if zb, err := base64.StdEncoding.DecodeString(f.OpGz); err == nil {
			if zr, err := gzip.NewReader(bytes.NewReader(zb)); err == nil {
				if full, err := io.ReadAll(zr); err == nil {
					op = string(full)
				}
			}
		}
	}
	if strings.HasPrefix(op, "v2: ") {
		fmt.Println("the recorded operation ran in the v2 package of a schema pair; replay the pair with ./check C04")
		return 0
	}
	status := 0
	if strings.HasPrefix(op, "dec ") || strings.HasPrefix(op, "decs ") || strings.HasPrefix(op, "enc ") || modelMarshalTo(op) {
		// a model operation was recorded; show the model's answer
	} else {
		d, err := session.OpenDriver(p, env, 20*time.Second)
		if err != nil {
			fmt.Println("replay: driver:", err)
			return 2
		}
		defer d.Close()
		r, _ := d.Do(op)
		fmt.Printf("real   %s\n    -> %s\n", session.Abbrev(op, 300), r.Short())
		fmt.Printf("expected: %s\nrecorded: %s\n", session.Abbrev(f.Expected, 300), session.Abbrev(f.Observed, 300))
		if r.Raw == f.Observed || r.Class == "panic" || r.Class == "crash" || r.Class == "timeout" {
			status = 1
		}
	}
	if modelPath != "" {
		if m, err := session.OpenModel(modelPath, env, 30*time.Second); err == nil {
			defer m.Close()
			mop := op
			t := strings.Fields(op)
			switch {
			case len(t) >= 3 && t[0] == "unmarshal":
				mop = "dec 1 " + t[1] + " " + t[2]
			case len(t) >= 4 && t[0] == "decode":
				mop = "decs " + t[1] + " " + t[3]
			}
			r, _ := m.Do(mop)
			fmt.Printf("model  %s\n    -> %s\n", session.Abbrev(mop, 300), r.Short())
		}
	}
	return status
}

// modelMarshalTo: the model's operation is `marshalto <hex> <value>`, the driver's `marshalto <def> <fill> <extra> <value>`.
func modelMarshalTo(op string) bool {
	t := strings.Fields(op)
	if len(t) < 3 || t[0] != "marshalto" {
		return false
	}
	_, err := strconv.Atoi(t[2])
	return err != nil
}
