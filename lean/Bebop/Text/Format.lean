/-
  Format: operational model of format.go — a positional, token-count-driven formatter.
  It never looks at `Next`'s result inside its fixed-count loops, exactly like the Go code.
-/
import Bebop.Text.Tokenizer

namespace Bebop.Text

/-- `tr.Next(); x = append(x, tr.Token().concrete...)` -/
def nextConc (t : TR) : List Byte × TR :=
  let (_, t1) := next t
  (t1.nextTok.concrete, t1)

/-- k times: optional separator byte, then the next token's text -/
def takeToks (sep : List Byte) : Nat → TR → List Byte → List Byte × TR
  | 0, t, acc => (acc, t)
  | k+1, t, acc =>
    let (c, t1) := nextConc t
    takeToks sep k t1 (acc ++ sep ++ c)

/-- formatType; `none`: out of fuel (unbounded recursion in Go: a stack overflow). -/
def formatType : Nat → TR → Option (List Byte × TR)
  | 0, _ => none
  | f+1, t =>
    let tk := t.nextTok
    -- `inl`: the early `return typeBytes` when the input ends inside a map / array type (no suffix loop);
    -- `inr`: fall through to the `[]` suffix loop
    let body : Option ((List Byte × TR) ⊕ (List Byte × TR)) :=
      match tk.kind with
      | .ident => some (.inr (tk.concrete, t))
      | .kMap =>
        let (a, t1) := takeToks [] 3 t tk.concrete
        match next t1 with
        | (false, t2) => some (.inl (a ++ [32], t2))
        | (true, t2) =>
          match formatType f t2 with
          | none => none
          | some (v, t3) =>
            let (c, t4) := nextConc t3
            some (.inr (a ++ [32] ++ v ++ c, t4))
      | .kArray =>
        let (a, t1) := takeToks [] 1 t tk.concrete
        match next t1 with
        | (false, t2) => some (.inl (a, t2))
        | (true, t2) =>
          match formatType f t2 with
          | none => none
          | some (v, t3) =>
            let (c, t4) := nextConc t3
            some (.inr (a ++ v ++ c, t4))
      | _ => some (.inr ([], t))
    match body with
    | none => none
    | some (.inl r) => some r
    | some (.inr (bs, t1)) => arrSuffix f t1 bs
where
  strOfAscii (s : String) : List Byte := s.toList.map (fun c => UInt8.ofNat c.toNat)
  /-- `for { if !tr.Next() || kind != '[' { tr.UnNext(); break }; tr.Next(); append "[]" }` -/
  arrSuffix : Nat → TR → List Byte → Option (List Byte × TR)
    | 0, _, _ => none
    | f+1, t1, bs =>
      match next t1 with
      | (ok, t2) =>
        if ok && t2.nextTok.kind == .openSquare then
          let (_, t3) := next t2
          arrSuffix f t3 (bs ++ strOfAscii "[]")
        else some (bs, { t2 with keep := true })

def sq (s : String) : List Byte := s.toList.map (fun c => UInt8.ofNat c.toNat)

/-- `[` + five tokens + newline (opcode / deprecated attributes) -/
def fmtAttr (pre : List Byte) (t : TR) : List Byte × TR :=
  let (a, t1) := takeToks [] 5 t (pre ++ t.nextTok.concrete)
  (a ++ [10], t1)

def formatEnum (fuel : Nat) (t : TR) : Option (List Byte × TR) :=
    let (hd, t1) := takeToks [32] 2 t t.nextTok.concrete
    let (hd, t1) := if t1.nextTok.kind == .colon then takeToks [32] 2 t1 hd else (hd, t1)
    loop fuel t1 (hd ++ [10])
where
  /-- `for tr.Next() && kind != ';' { space unless after '(' or before ')'; append }` -/
  optValue : Nat → TR → TK → List Byte → List Byte × TR
    | 0, t, _, acc => (acc, t)
    | f+1, t, prev, acc =>
      match next t with
      | (false, t1) => (acc, t1)
      | (true, t1) =>
        let tk := t1.nextTok
        if tk.kind == .semicolon then (acc, t1)
        else
          let sp := if prev != .openParen && tk.kind != .closeParen then [32] else []
          optValue f t1 tk.kind (acc ++ sp ++ tk.concrete)
  loop : Nat → TR → List Byte → Option (List Byte × TR)
    | 0, _, _ => none      -- out of fuel: the Go loop would not have ended
    | f+1, t, acc =>
      match next t with
      | (false, t1) => some (acc, t1)
      | (true, t1) =>
        let tk := t1.nextTok
        match tk.kind with
        | .lineComment => loop f t1 (acc ++ [9] ++ tk.concrete)
        | .blockComment => loop f t1 (acc ++ [9] ++ tk.concrete ++ [10])
        | .openSquare => let (a, t2) := fmtAttr [9] t1; loop f t2 (acc ++ a)
        | .ident =>
          let (o, t2) := optValue fuel t1 tk.kind ([9] ++ tk.concrete)
          loop f t2 (acc ++ o ++ sq ";\n")
        | .closeCurly => some (acc ++ tk.concrete ++ [10], t1)
        | _ => loop f t1 acc

def formatConst (t : TR) : List Byte × TR :=
  let (c, t1) := takeToks [32] 4 t t.nextTok.concrete
  let (_, t2) := next t1
  (c ++ sq ";", t2)

def formatStruct (fuel : Nat) (t : TR) (readonly : Bool) (prefix_ : List Byte) : Option (List Byte × TR) :=
  let start := (if readonly then sq "readonly " else []) ++ t.nextTok.concrete
  let (hd, t1) := takeToks [32] 2 t start
  loop fuel t1 (hd ++ [10])
where
  loop : Nat → TR → List Byte → Option (List Byte × TR)
    | 0, _, _ => none      -- out of fuel: the Go loop would not have ended
    | f+1, t, acc =>
      match next t with
      | (false, t1) => some (acc, t1)
      | (true, t1) =>
        let tk := t1.nextTok
        match tk.kind with
        | .lineComment => loop f t1 (acc ++ prefix_ ++ tk.concrete)
        | .blockComment => loop f t1 (acc ++ prefix_ ++ tk.concrete ++ [10])
        | .openSquare => let (a, t2) := fmtAttr prefix_ t1; loop f t2 (acc ++ a)
        | .ident | .kMap | .kArray =>
          match formatType fuel t1 with
          | none => none
          | some (ty, t2) =>
            let (nm, t3) := nextConc t2
            let (_, t4) := next t3
            let fd := prefix_ ++ ty ++ [32] ++ nm ++ sq ";"
            match next t4 with
            | (false, t5) => some (acc ++ fd ++ [10], t5)      -- the input ends after the field: break
            | (true, t5) =>
              if t5.nextTok.kind == .lineComment then loop f t5 (acc ++ fd ++ [32] ++ t5.nextTok.concrete)
              else loop f { t5 with keep := true } (acc ++ fd ++ [10])
        | .closeCurly => some (acc ++ prefix_.dropLast ++ tk.concrete ++ [10], t1)
        | _ => loop f t1 acc

def formatMessage (fuel : Nat) (t : TR) (prefix_ : List Byte) : Option (List Byte × TR) :=
  let (hd, t1) := takeToks [32] 2 t t.nextTok.concrete
  loop fuel t1 (hd ++ [10])
where
  loop : Nat → TR → List Byte → Option (List Byte × TR)
    | 0, _, _ => none      -- out of fuel: the Go loop would not have ended
    | f+1, t, acc =>
      match next t with
      | (false, t1) => some (acc, t1)
      | (true, t1) =>
        let tk := t1.nextTok
        match tk.kind with
        | .lineComment => loop f t1 (acc ++ prefix_ ++ tk.concrete)
        | .blockComment => loop f t1 (acc ++ prefix_ ++ tk.concrete ++ [10])
        | .openSquare => let (a, t2) := fmtAttr prefix_ t1; loop f t2 (acc ++ a)
        | .intLit =>
          let (arrow, t2) := nextConc t1
          let (_, t3) := next t2
          match formatType fuel t3 with
          | none => none
          | some (ty, t4) =>
            let (nm, t5) := nextConc t4
            let (_, t6) := next t5
            loop f t6 (acc ++ prefix_ ++ tk.concrete ++ [32] ++ arrow ++ [32] ++ ty ++ [32] ++ nm ++ sq ";\n")
        | .closeCurly => some (acc ++ prefix_.dropLast ++ tk.concrete ++ [10], t1)
        | _ => loop f t1 acc

def formatUnion (fuel : Nat) (t : TR) (prefix_ : List Byte) : Option (List Byte × TR) :=
  let (hd, t1) := takeToks [32] 2 t t.nextTok.concrete
  loop fuel t1 (hd ++ [10])
where
  loop : Nat → TR → List Byte → Option (List Byte × TR)
    | 0, _, _ => none      -- out of fuel: the Go loop would not have ended
    | f+1, t, acc =>
      match next t with
      | (false, t1) => some (acc, t1)
      | (true, t1) =>
        let tk := t1.nextTok
        match tk.kind with
        | .lineComment => loop f t1 (acc ++ prefix_ ++ tk.concrete)
        | .blockComment => loop f t1 (acc ++ prefix_ ++ tk.concrete ++ [10])
        | .openSquare => let (a, t2) := fmtAttr prefix_ t1; loop f t2 (acc ++ a)
        | .intLit =>
          let (arrow, t2) := nextConc t1
          let (_, t3) := next t2
          let hd := prefix_ ++ tk.concrete ++ [32] ++ arrow ++ [32]
          match t3.nextTok.kind with
          | .kMessage =>
            match formatMessage fuel t3 (prefix_ ++ [9]) with
            | none => none
            | some (m, t4) => loop f t4 (acc ++ hd ++ m)
          | .kStruct =>
            match formatStruct fuel t3 false (prefix_ ++ [9]) with
            | none => none
            | some (s, t4) => loop f t4 (acc ++ hd ++ s)
          | _ => loop f t3 (acc ++ hd)
        | .closeCurly => some (acc ++ prefix_.dropLast ++ tk.concrete ++ [10], t1)
        | _ => loop f t1 acc

/-- format(): the top-level loop. `none`: out of fuel. -/
def formatLoop (fuel : Nat) : Nat → TR → List Byte → Bool → Bool → Option (List Byte)
  | 0, _, _, _, _ => none
  | f+1, t, out, readOnly, nl =>
    match next t with
    | (false, _) => some out
    | (true, t1) =>
      let tk := t1.nextTok
      let pre := if nl then [10] else []
      match tk.kind with
      | .openSquare =>
        let (a, t2) := takeToks [] 1 t1 tk.concrete
        let (a, t2) := takeToks [] (if t2.nextTok.kind == .kFlags then 1 else 4) t2 a
        formatLoop fuel f t2 (out ++ pre ++ a ++ [10]) false false
      | .kImport =>
        let (a, t2) := takeToks [32] 1 t1 tk.concrete
        formatLoop fuel f t2 (out ++ pre ++ a ++ [10]) false false
      | .lineComment => formatLoop fuel f t1 (out ++ tk.concrete) false false
      | .blockComment => formatLoop fuel f t1 (out ++ tk.concrete ++ [10]) false false
      | .kReadOnly => formatLoop fuel f t1 out true nl
      | .kEnum =>
        match formatEnum fuel t1 with
        | none => none
        | some (e, t2) => formatLoop fuel f t2 (out ++ pre ++ e) false true
      | .kConst =>
        let (c, t2) := formatConst t1
        formatLoop fuel f t2 (out ++ pre ++ c) false true
      | .kStruct =>
        match formatStruct fuel t1 readOnly [9] with
        | none => none
        | some (s, t2) => formatLoop fuel f t2 (out ++ pre ++ s) false true
      | .kMessage =>
        match formatMessage fuel t1 [9] with
        | none => none
        | some (m, t2) => formatLoop fuel f t2 (out ++ pre ++ m) false true
      | .kUnion =>
        match formatUnion fuel t1 [9] with
        | none => none
        | some (u, t2) => formatLoop fuel f t2 (out ++ pre ++ u) false true
      | _ => formatLoop fuel f t1 out false nl

/-- bebop.Format on `inp` (reader ends with EOF); `none`: the model ran out of fuel. -/
def format (inp : List Byte) : Option (List Byte) :=
  let fuel := 2 * inp.length + 4
  formatLoop fuel fuel (mkTR inp) [] false false

end Bebop.Text
