import Bebop.Text.Purity

namespace Bebop.Purity

/-- The arrays that existed before are untouched as long as the slice is detached (lives in a newer array)
    or full. -/
def Detached (n0 : Nat) (s : Slice) : Prop := n0 ≤ s.arr ∨ s.cap ≤ s.len

theorem append1_frame (h : Heap) (s : Slice) (x : Nat) (n0 : Nat) (hn : n0 ≤ h.length) (hd : Detached n0 s) :
    (∀ i, i < n0 → (append1 h s x).1[i]? = h[i]?) ∧ n0 ≤ (append1 h s x).1.length ∧ n0 ≤ (append1 h s x).2.arr := by
  unfold append1
  by_cases hc : s.len < s.cap
  · rw [if_pos hc]
    have ha : n0 ≤ s.arr := by
      cases hd with
      | inl a => exact a
      | inr b => omega
    refine ⟨?_, ?_, ha⟩
    · intro i hi
      simp only [List.getElem?_set]
      have : s.arr ≠ i := by omega
      simp [this]
    · simpa using hn
  · rw [if_neg hc]
    refine ⟨?_, ?_, ?_⟩
    · intro i hi
      simp only
      rw [List.getElem?_append_left (by omega)]
    · simp only [List.length_append]; omega
    · simpa using hn

theorem appendAll_frame (xs : List Nat) : ∀ (h : Heap) (s : Slice) (n0 : Nat), n0 ≤ h.length → Detached n0 s →
    ∀ i, i < n0 → (appendAll h s xs).1[i]? = h[i]? := by
  induction xs with
  | nil => intro h s n0 _ _ i _; rfl
  | cons x xs ih =>
    intro h s n0 hn hd i hi
    simp only [appendAll]
    have f := append1_frame h s x n0 hn hd
    rw [show (append1 h s x) = ((append1 h s x).1, (append1 h s x).2) from rfl]
    simp only
    rw [ih _ _ n0 f.2.1 (Or.inl f.2.2) i hi]
    exact f.1 i hi

theorem appendAll_inv (xs : List Nat) : ∀ (h : Heap) (s : Slice) (n0 : Nat), n0 ≤ h.length → Detached n0 s →
    n0 ≤ (appendAll h s xs).1.length ∧ Detached n0 (appendAll h s xs).2 := by
  induction xs with
  | nil => intro h s n0 hn hd; exact ⟨hn, hd⟩
  | cons x xs ih =>
    intro h s n0 hn hd
    simp only [appendAll]
    have f := append1_frame h s x n0 hn hd
    rw [show (append1 h s x) = ((append1 h s x).1, (append1 h s x).2) from rfl]
    exact ih _ _ n0 f.2.1 (Or.inl f.2.2)

/-- Running a safe event list: the caller's arrays are never written. `clipped`: the field has been clipped
    (so its slice is Detached) -/
theorem runField_frame (field : String) (evs : List Ev) : ∀ (clipped : List String) (data : Nat → List Nat) (k : Nat)
    (h : Heap) (s : Slice) (n0 : Nat), eventsSafe evs clipped = true → n0 ≤ h.length →
    (clipped.contains field = true → Detached n0 s) →
    ∀ i, i < n0 → (runField field evs data k h s).1[i]? = h[i]? := by
  induction evs with
  | nil => intro _ _ _ h s n0 _ _ _ i _; rfl
  | cons e rest ih =>
    intro clipped data k h s n0 hs hn hd i hi
    cases e with
    | clip f =>
      simp only [eventsSafe] at hs
      simp only [runField]
      apply ih (f :: clipped) data (k+1) h _ n0 hs hn _ i hi
      intro hc
      by_cases hf : (f == field) = true
      · rw [if_pos hf]; exact Or.inr (by simp [clip])
      · rw [if_neg hf]
        apply hd
        simp only [List.contains_cons, Bool.or_eq_true] at hc
        cases hc with
        | inl a =>
          have e : field = f := by simpa using a
          exact absurd (by rw [e]; exact beq_self_eq_true f) hf
        | inr b => exact b
    | append f =>
      simp only [eventsSafe, Bool.and_eq_true] at hs
      simp only [runField]
      by_cases hf : (f == field) = true
      · rw [if_pos hf]
        have hfe : f = field := by simpa using hf
        have hdet : Detached n0 s := hd (by rw [← hfe]; exact hs.1)
        rw [show appendAll h s (data k) = ((appendAll h s (data k)).1, (appendAll h s (data k)).2) from rfl]
        simp only
        have inv := appendAll_inv (data k) h s n0 hn hdet
        rw [ih clipped data (k+1) _ _ n0 hs.2 inv.1 (fun _ => inv.2) i hi]
        exact appendAll_frame (data k) h s n0 hn hdet i hi
      · rw [if_neg hf]
        exact ih clipped data (k+1) h s n0 hs.2 hn hd i hi
    | store f =>
      simp only [eventsSafe] at hs
      simp only [runField]
      apply ih _ data (k+1) h s n0 hs hn _ i hi
      intro hc
      apply hd
      have := List.mem_filter.mp (List.contains_iff_mem.mp hc)
      exact List.contains_iff_mem.mpr this.1
    | other o => simp [eventsSafe] at hs

theorem eq_of_nodup_map_fst {β} : ∀ (l : List (Nat × β)) (a b : Nat × β), (l.map (·.1)).Nodup → a ∈ l → b ∈ l →
    a.1 = b.1 → a = b := by
  intro l
  induction l with
  | nil => intro a b _ ha; cases ha
  | cons x xs ih =>
    intro a b hd ha hb hk
    simp only [List.map_cons, List.nodup_cons, List.mem_map, not_exists, not_and] at hd
    simp only [List.mem_cons] at ha hb
    rcases ha with rfl | ha <;> rcases hb with rfl | hb
    · rfl
    · exact absurd hk.symm (hd.1 b hb)
    · exact absurd hk (hd.1 a ha)
    · exact ih a b hd.2 ha hb hk

/-- Two sorted lists with the same entries and distinct indices are the same list. -/
theorem sorted_perm_unique {β} (r1 r2 : List (Nat × β)) (h1 : SortedBy r1) (h2 : SortedBy r2) (hp : r1.Perm r2)
    (hd : (r1.map (·.1)).Nodup) : r1 = r2 := by
  unfold SortedBy at h1 h2
  apply List.Perm.eq_of_pairwise (le := fun a b => a.1 ≤ b.1) _ h1 h2 hp
  intro a b ha hb hab hba
  have hb1 : b ∈ r1 := hp.symm.subset hb
  have hk : a.1 = b.1 := Nat.le_antisymm hab hba
  -- distinct keys: equal keys force equal entries
  exact eq_of_nodup_map_fst r1 a b hd ha hb1 hk

end Bebop.Purity
