/-
  Tokenizer fuel irrelevance: the fuel argument of the tokenizer model's helper loops (`numberLoop`, `skipWs`,
  `blockLoop`, `stringLoop`, `findFirst`, `identLoop`, and `allTokens`) is only a termination device.  Every
  iteration that recurses has consumed one byte (resp., for `allTokens`, has lowered the measure `mu`), so with
  any fuel above the input length (resp. above `mu`) the `fuel = 0` branch is never reached: two such fuels
  give the same result.  The callers pass `|inp| + 1`, hence the value returned in the `0` branches is
  irrelevant.
-/
import Bebop.Text.Tokenizer
import Bebop.Proofs.TokenizerProgress

namespace Bebop.Text

/-- After a successful ReadByte one byte less is left: fuel `f + 1` above the old length leaves `f` above the
    new one. -/
theorem fuel_step {t : TR} {c : Byte} {rest : List Byte} {f : Nat} (hi : t.inp = c :: rest)
    (h : t.inp.length < f + 1) : ({ t with inp := rest, last := some c } : TR).inp.length < f := by
  rw [hi] at h
  simp only [List.length_cons] at h
  show rest.length < f
  omega

/-! ## The byte-driven loops -/

theorem numberLoop_fuel_stable : ∀ (f1 f2 : Nat) (t : TR) (conc : List Byte) (kind : TK) (a b c d : Bool),
    t.inp.length < f1 → t.inp.length < f2 →
    numberLoop f1 t conc kind a b c d = numberLoop f2 t conc kind a b c d
  | 0, _, _, _, _, _, _, _, _, h1, _ => by omega
  | _+1, 0, _, _, _, _, _, _, _, _, h2 => by omega
  | f1+1, f2+1, t, conc, kind, second, hex, decimal, invalidLast, h1, h2 => by
    simp only [numberLoop]
    rcases readByte_cases t with ⟨c, rest, hi, hr⟩ | ⟨_, _, hr⟩ | ⟨_, _, hr⟩
    · rw [hr]
      have IH : ∀ (conc : List Byte) (kind : TK) (a b c' d : Bool),
          numberLoop f1 { t with inp := rest, last := some c } conc kind a b c' d =
          numberLoop f2 { t with inp := rest, last := some c } conc kind a b c' d :=
        fun conc kind a b c' d =>
          numberLoop_fuel_stable f1 f2 _ conc kind a b c' d (fuel_step hi h1) (fuel_step hi h2)
      simp only [IH]
    · rw [hr]
    · rw [hr]

theorem skipWs_fuel_stable : ∀ (f1 f2 : Nat) (t : TR),
    t.inp.length < f1 → t.inp.length < f2 → skipWs f1 t = skipWs f2 t
  | 0, _, _, h1, _ => by omega
  | _+1, 0, _, _, h2 => by omega
  | f1+1, f2+1, t, h1, h2 => by
    simp only [skipWs]
    rcases readByte_cases t with ⟨c, rest, hi, hr⟩ | ⟨_, _, hr⟩ | ⟨_, _, hr⟩
    · rw [hr]
      have IH : skipWs f1 { t with inp := rest, last := some c } = skipWs f2 { t with inp := rest, last := some c } :=
        skipWs_fuel_stable f1 f2 _ (fuel_step hi h1) (fuel_step hi h2)
      simp only [IH]
    · rw [hr]
    · rw [hr]

theorem blockLoop_fuel_stable : ∀ (f1 f2 : Nat) (t : TR) (conc : List Byte) (lastB : Byte),
    t.inp.length < f1 → t.inp.length < f2 → blockLoop f1 t conc lastB = blockLoop f2 t conc lastB
  | 0, _, _, _, _, h1, _ => by omega
  | _+1, 0, _, _, _, _, h2 => by omega
  | f1+1, f2+1, t, conc, lastB, h1, h2 => by
    simp only [blockLoop]
    rcases readByte_cases t with ⟨c, rest, hi, hr⟩ | ⟨_, _, hr⟩ | ⟨_, _, hr⟩
    · rw [hr]
      have IH : ∀ (conc : List Byte) (lb : Byte),
          blockLoop f1 { t with inp := rest, last := some c } conc lb =
          blockLoop f2 { t with inp := rest, last := some c } conc lb :=
        fun conc lb => blockLoop_fuel_stable f1 f2 _ conc lb (fuel_step hi h1) (fuel_step hi h2)
      simp only [IH]
    · rw [hr]
    · rw [hr]

theorem stringLoop_fuel_stable : ∀ (f1 f2 : Nat) (t : TR) (conc : List Byte) (escaping : Bool),
    t.inp.length < f1 → t.inp.length < f2 → stringLoop f1 t conc escaping = stringLoop f2 t conc escaping
  | 0, _, _, _, _, h1, _ => by omega
  | _+1, 0, _, _, _, _, h2 => by omega
  | f1+1, f2+1, t, conc, escaping, h1, h2 => by
    simp only [stringLoop]
    rcases readByte_cases t with ⟨c, rest, hi, hr⟩ | ⟨_, _, hr⟩ | ⟨_, _, hr⟩
    · rw [hr]
      have IH : ∀ (conc : List Byte) (e : Bool),
          stringLoop f1 { t with inp := rest, last := some c } conc e =
          stringLoop f2 { t with inp := rest, last := some c } conc e :=
        fun conc e => stringLoop_fuel_stable f1 f2 _ conc e (fuel_step hi h1) (fuel_step hi h2)
      simp only [IH]
    · rw [hr]
    · rw [hr]

/-- `findFirst` recurses only where it skips a blank; every other branch does not mention the fuel. -/
theorem findFirst_fuel_stable : ∀ (f1 f2 : Nat) (t : TR),
    t.inp.length < f1 → t.inp.length < f2 → findFirst f1 t = findFirst f2 t
  | 0, _, _, h1, _ => by omega
  | _+1, 0, _, _, h2 => by omega
  | f1+1, f2+1, t, h1, h2 => by
    rcases readByte_cases t with ⟨c, rest, hi, hr⟩ | ⟨_, _, hr⟩ | ⟨_, _, hr⟩
    · by_cases hs : Facts.tokenTreeSkips.contains c.toNat = true
      · rw [findFirst_blank f1 t c rest hi hs, findFirst_blank f2 t c rest hi hs]
        exact findFirst_fuel_stable f1 f2 _ (fuel_step hi h1) (fuel_step hi h2)
      · rw [findFirst, findFirst, hr]
        simp only [hs, Bool.false_eq_true, if_false]
    · rw [findFirst, findFirst, hr]
    · rw [findFirst, findFirst, hr]

theorem identLoop_fuel_stable : ∀ (f1 f2 : Nat) (t : TR) (conc : List Byte),
    t.inp.length < f1 → t.inp.length < f2 → identLoop f1 t conc = identLoop f2 t conc
  | 0, _, _, _, h1, _ => by omega
  | _+1, 0, _, _, _, h2 => by omega
  | f1+1, f2+1, t, conc, h1, h2 => by
    simp only [identLoop]
    split
    · rfl
    · rename_i c rest hi
      have IH : identLoop f1 { t with inp := rest, last := some c } (conc ++ [c]) =
          identLoop f2 { t with inp := rest, last := some c } (conc ++ [c]) :=
        identLoop_fuel_stable f1 f2 _ _ (fuel_step hi h1) (fuel_step hi h2)
      rw [IH]

/-! ## The token loop: fuel over the measure `mu` -/

theorem allTokens_fuel_stable : ∀ (f1 f2 : Nat) (t : TR) (acc : List Token),
    mu t < f1 → mu t < f2 → allTokens f1 t acc = allTokens f2 t acc
  | 0, _, _, _, h1, _ => by omega
  | _+1, 0, _, _, _, h2 => by omega
  | f1+1, f2+1, t, acc, h1, h2 => by
    simp only [allTokens]
    have hm := (next_measure t).2
    obtain ⟨r, t1, hn⟩ : ∃ r t1, next t = (r, t1) := ⟨_, _, rfl⟩
    rw [hn] at hm ⊢
    cases r with
    | false => rfl
    | true =>
      have hlt : mu t1 < mu t := hm rfl
      exact allTokens_fuel_stable f1 f2 t1 _ (by omega) (by omega)

/-! ## Call sites: the fuel the callers pass is enough, so any larger fuel gives the same result -/

theorem numberLoop_fuel (f : Nat) (t : TR) (conc : List Byte) (kind : TK) (a b c d : Bool) (h : t.inp.length < f) :
    numberLoop f t conc kind a b c d = numberLoop (t.inp.length + 1) t conc kind a b c d :=
  numberLoop_fuel_stable _ _ t conc kind a b c d h (Nat.lt_succ_self _)

theorem skipWs_fuel (f : Nat) (t : TR) (h : t.inp.length < f) : skipWs f t = skipWs (t.inp.length + 1) t :=
  skipWs_fuel_stable _ _ t h (Nat.lt_succ_self _)

theorem blockLoop_fuel (f : Nat) (t : TR) (conc : List Byte) (lastB : Byte) (h : t.inp.length < f) :
    blockLoop f t conc lastB = blockLoop (t.inp.length + 1) t conc lastB :=
  blockLoop_fuel_stable _ _ t conc lastB h (Nat.lt_succ_self _)

theorem stringLoop_fuel (f : Nat) (t : TR) (conc : List Byte) (escaping : Bool) (h : t.inp.length < f) :
    stringLoop f t conc escaping = stringLoop (t.inp.length + 1) t conc escaping :=
  stringLoop_fuel_stable _ _ t conc escaping h (Nat.lt_succ_self _)

theorem findFirst_fuel (f : Nat) (t : TR) (h : t.inp.length < f) : findFirst f t = findFirst (t.inp.length + 1) t :=
  findFirst_fuel_stable _ _ t h (Nat.lt_succ_self _)

theorem identLoop_fuel (f : Nat) (t : TR) (conc : List Byte) (h : t.inp.length < f) :
    identLoop f t conc = identLoop (t.inp.length + 1) t conc :=
  identLoop_fuel_stable _ _ t conc h (Nat.lt_succ_self _)

/-- numberToken is `numberLoop` with any sufficient fuel. -/
theorem numberToken_fuel (t : TR) (conc : List Byte) (f : Nat) (h : t.inp.length < f) :
    numberLoop f t conc .intLit true false false false = numberToken t conc :=
  numberLoop_fuel f t conc .intLit true false false false h

/-- blockCommentToken is `blockLoop` with any sufficient fuel. -/
theorem blockCommentToken_fuel (t : TR) (conc : List Byte) (f : Nat) (h : t.inp.length < f) :
    blockLoop f t conc 0 = blockCommentToken t conc :=
  blockLoop_fuel f t conc 0 h

/-- stringLiteralToken is `stringLoop` with any sufficient fuel. -/
theorem stringLiteralToken_fuel (t : TR) (conc : List Byte) (f : Nat) (h : t.inp.length < f) :
    stringLoop f t conc false = stringLiteralToken t conc :=
  stringLoop_fuel f t conc false h

/-- The call of skipFollowingWhitespace at the end of a block comment (`blockLoop` passes `|inp| + 1`). -/
theorem skipWs_call_fuel (t : TR) (f : Nat) (h : t.inp.length < f) : skipWs f t = skipWs (t.inp.length + 1) t :=
  skipWs_fuel f t h

/-- The identifier loop as `next` calls it: on the state whose input is `rest`, with fuel `|rest| + 1`. -/
theorem identLoop_fuel_cons (F : Nat) (t : TR) (c : Byte) (rest conc : List Byte) :
    identLoop (rest.length + 1 + F) { t with inp := rest, last := some c } conc =
    identLoop (rest.length + 1) { t with inp := rest, last := some c } conc :=
  identLoop_fuel_stable _ _ _ conc (by show rest.length < _; omega) (by show rest.length < _; omega)

/-- `next` with `extra` more fuel in both of its loops (`findFirst` and `identLoop`). -/
def nextWithFuel (extra : Nat) (t : TR) : Bool × TR :=
  if t.keep then (true, { t with keep := false })
  else
    let errCount := t.errs.length
    let (tk, r, t1) := findFirst (t.inp.length + 1 + extra) t
    if r == .eof then (false, t1)
    else if t1.errs.getLast? == some .ueof then (false, t1)
    else if !t1.errs.isEmpty && r != .tok && t1.errs.length > errCount then (false, t1)
    else if r == .tok then (true, setNext t1 tk)
    else
        let t2 := unreadByte t1
        if t2.panicked then (false, t2) else
        match t2.inp with
        | [] => (false, addErr t2 (if t2.ioFail then .io else .ueof))
        | c :: rest =>
          if c.toNat ≥ 0x80 then (false, { t2 with nonAscii := true })
          else if isAsciiLetter c then
            identLoop (rest.length + 1 + extra) { t2 with inp := rest, last := some c } [c]
          else (false, addErr { t2 with inp := rest, last := some c } .other)

/-- With no extra fuel this is `next` itself, by definition. -/
theorem nextWithFuel_zero (t : TR) : nextWithFuel 0 t = next t := rfl

/-- `Next` does not depend on the fuel of its loops: with the fuels it passes (`|inp| + 1` to `findFirst`,
    `|rest| + 1` to `identLoop`) the fuel-0 branches are not reached, and any larger fuels give the same
    answer and the same reader state. -/
theorem next_fuel_irrelevant (extra : Nat) (t : TR) : nextWithFuel extra t = next t := by
  unfold nextWithFuel next
  rw [findFirst_fuel (t.inp.length + 1 + extra) t (by omega)]
  simp only [identLoop_fuel_cons]
  rfl

/-- The same, spelled out for the two loops `next` calls. -/
theorem next_loops_fuel (t : TR) :
    (∀ f, t.inp.length + 1 ≤ f → findFirst f t = findFirst (t.inp.length + 1) t) ∧
    (∀ f (t2 : TR) (c : Byte) (rest conc : List Byte), rest.length + 1 ≤ f →
      identLoop f { t2 with inp := rest, last := some c } conc =
      identLoop (rest.length + 1) { t2 with inp := rest, last := some c } conc) :=
  ⟨fun f h => findFirst_fuel f t (by omega),
   fun f t2 c rest conc h =>
     identLoop_fuel_stable _ _ _ conc (by show rest.length < _; omega) (by show rest.length < _; omega)⟩

/-- The token loop from a fresh reader: the driver passes `2·|inp| + 4 > mu = 2·|inp|`. -/
theorem allTokens_mkTR_fuel (inp : List Byte) (io : Bool) (f : Nat) (h : 2 * inp.length < f) :
    allTokens f (mkTR inp io) [] = allTokens (2 * inp.length + 4) (mkTR inp io) [] :=
  allTokens_fuel_stable _ _ _ _ (by simp only [mu, mkTR]; simpa using h) (by simp [mu, mkTR])

theorem allTokens_fuel (f : Nat) (t : TR) (acc : List Token) (h : mu t < f) :
    allTokens f t acc = allTokens (mu t + 1) t acc :=
  allTokens_fuel_stable _ _ t acc h (Nat.lt_succ_self _)

end Bebop.Text
