// Package val is the `Val` tree of PROTOCOL.md with its token syntax, canonicalisation,
// type-directed random generation and byte-string corruptions.
package val

import (
	"encoding/hex"
	"fmt"
	"sort"
	"strconv"
	"strings"

	"verif/harness/internal/schema"
)

// Kind discriminates Val.
type Kind int

const (
	KScalar Kind = iota // n <w> <decimal>
	KStr                // str <hex>
	KGuid               // guid <hex>
	KArr                // arr <count> ...
	KMap                // map <count> (k v)...
	KStruct             // st <count> ...
	KMsg                // msg <count> (idx v)...
	KUnion              // un <disc> <member>
)

// NoMember is the discriminator of a union with no member set.
const NoMember = 256

// Val is a value.
type Val struct {
	K     Kind
	W     int    // KScalar: width in bytes
	N     uint64 // KScalar: bit pattern
	B     []byte // KStr, KGuid
	Elems []Val  // KArr: elements; KStruct: fields; KMsg: field values; KMap: values; KUnion: the member
	Keys  []Val  // KMap: keys
	Idx   []int  // KMsg: field indices
	Disc  int    // KUnion
}

// Scalar builds a scalar.
func Scalar(w int, n uint64) Val { return Val{K: KScalar, W: w, N: n} }

// EmptyUnion is `un 256 st 0`.
func EmptyUnion() Val { return Val{K: KUnion, Disc: NoMember, Elems: []Val{{K: KStruct}}} }

// Hex prints bytes in protocol form ("-" for empty).
func Hex(b []byte) string {
	if len(b) == 0 {
		return "-"
	}
	return hex.EncodeToString(b)
}

// Unhex parses protocol hex.
func Unhex(s string) ([]byte, error) {
	if s == "-" {
		return []byte{}, nil
	}
	return hex.DecodeString(s)
}

// String prints the prefix token form.
func (v Val) String() string {
	var b strings.Builder
	v.write(&b)
	return b.String()
}

func (v Val) write(b *strings.Builder) {
	switch v.K {
	case KScalar:
		b.WriteString("n ")
		b.WriteString(strconv.Itoa(v.W))
		b.WriteByte(' ')
		b.WriteString(strconv.FormatUint(v.N, 10))
	case KStr:
		b.WriteString("str ")
		b.WriteString(Hex(v.B))
	case KGuid:
		b.WriteString("guid ")
		b.WriteString(Hex(v.B))
	case KArr:
		b.WriteString("arr ")
		b.WriteString(strconv.Itoa(len(v.Elems)))
		for _, e := range v.Elems {
			b.WriteByte(' ')
			e.write(b)
		}
	case KMap:
		b.WriteString("map ")
		b.WriteString(strconv.Itoa(len(v.Elems)))
		for i := range v.Elems {
			b.WriteByte(' ')
			v.Keys[i].write(b)
			b.WriteByte(' ')
			v.Elems[i].write(b)
		}
	case KStruct:
		b.WriteString("st ")
		b.WriteString(strconv.Itoa(len(v.Elems)))
		for _, e := range v.Elems {
			b.WriteByte(' ')
			e.write(b)
		}
	case KMsg:
		b.WriteString("msg ")
		b.WriteString(strconv.Itoa(len(v.Elems)))
		for i := range v.Elems {
			b.WriteByte(' ')
			b.WriteString(strconv.Itoa(v.Idx[i]))
			b.WriteByte(' ')
			v.Elems[i].write(b)
		}
	case KUnion:
		b.WriteString("un ")
		b.WriteString(strconv.Itoa(v.Disc))
		b.WriteByte(' ')
		if len(v.Elems) == 1 {
			v.Elems[0].write(b)
		} else {
			b.WriteString("st 0")
		}
	}
}

// Parse reads one Val from the front of tokens and returns the rest.
func Parse(tokens []string) (Val, []string, error) {
	if len(tokens) == 0 {
		return Val{}, nil, fmt.Errorf("val: no tokens")
	}
	need := func(n int) error {
		if len(tokens) < n {
			return fmt.Errorf("val: %q needs %d tokens, have %d", tokens[0], n, len(tokens))
		}
		return nil
	}
	count := func(s string) (int, error) {
		n, err := strconv.Atoi(s)
		if err != nil || n < 0 {
			return 0, fmt.Errorf("val: bad count %q", s)
		}
		return n, nil
	}
	switch tokens[0] {
	case "n":
		if err := need(3); err != nil {
			return Val{}, nil, err
		}
		w, err := strconv.Atoi(tokens[1])
		if err != nil || w < 1 || w > 8 {
			return Val{}, nil, fmt.Errorf("val: bad width %q", tokens[1])
		}
		n, err := strconv.ParseUint(tokens[2], 10, 64)
		if err != nil {
			return Val{}, nil, fmt.Errorf("val: bad scalar %q", tokens[2])
		}
		return Val{K: KScalar, W: w, N: n}, tokens[3:], nil
	case "str", "guid":
		if err := need(2); err != nil {
			return Val{}, nil, err
		}
		b, err := Unhex(tokens[1])
		if err != nil {
			return Val{}, nil, fmt.Errorf("val: bad hex %q", tokens[1])
		}
		k := KStr
		if tokens[0] == "guid" {
			k = KGuid
			if len(b) != 16 {
				return Val{}, nil, fmt.Errorf("val: guid of %d bytes", len(b))
			}
		}
		return Val{K: k, B: b}, tokens[2:], nil
	case "arr", "st":
		if err := need(2); err != nil {
			return Val{}, nil, err
		}
		n, err := count(tokens[1])
		if err != nil {
			return Val{}, nil, err
		}
		v := Val{K: KArr}
		if tokens[0] == "st" {
			v.K = KStruct
		}
		rest := tokens[2:]
		for i := 0; i < n; i++ {
			var e Val
			e, rest, err = Parse(rest)
			if err != nil {
				return Val{}, nil, err
			}
			v.Elems = append(v.Elems, e)
		}
		return v, rest, nil
	case "map":
		if err := need(2); err != nil {
			return Val{}, nil, err
		}
		n, err := count(tokens[1])
		if err != nil {
			return Val{}, nil, err
		}
		v := Val{K: KMap}
		rest := tokens[2:]
		for i := 0; i < n; i++ {
			var k, e Val
			k, rest, err = Parse(rest)
			if err != nil {
				return Val{}, nil, err
			}
			e, rest, err = Parse(rest)
			if err != nil {
				return Val{}, nil, err
			}
			v.Keys = append(v.Keys, k)
			v.Elems = append(v.Elems, e)
		}
		return v, rest, nil
	case "msg":
		if err := need(2); err != nil {
			return Val{}, nil, err
		}
		n, err := count(tokens[1])
		if err != nil {
			return Val{}, nil, err
		}
		v := Val{K: KMsg}
		rest := tokens[2:]
		for i := 0; i < n; i++ {
			if len(rest) == 0 {
				return Val{}, nil, fmt.Errorf("val: msg truncated")
			}
			idx, err := count(rest[0])
			if err != nil {
				return Val{}, nil, err
			}
			var e Val
			e, rest, err = Parse(rest[1:])
			if err != nil {
				return Val{}, nil, err
			}
			v.Idx = append(v.Idx, idx)
			v.Elems = append(v.Elems, e)
		}
		return v, rest, nil
	case "un":
		if err := need(2); err != nil {
			return Val{}, nil, err
		}
		d, err := count(tokens[1])
		if err != nil {
			return Val{}, nil, err
		}
		m, rest, err := Parse(tokens[2:])
		if err != nil {
			return Val{}, nil, err
		}
		return Val{K: KUnion, Disc: d, Elems: []Val{m}}, rest, nil
	}
	return Val{}, nil, fmt.Errorf("val: unknown tag %q", tokens[0])
}

// ParseString parses a whole string holding exactly one Val.
func ParseString(s string) (Val, error) {
	v, rest, err := Parse(strings.Fields(s))
	if err != nil {
		return Val{}, err
	}
	if len(rest) != 0 {
		return Val{}, fmt.Errorf("val: %d trailing tokens", len(rest))
	}
	return v, nil
}

// Canon returns a deep copy whose map entries are sorted by the printed form of the key,
// recursively.
func (v Val) Canon() Val {
	out := v
	out.B = v.B
	if len(v.Elems) > 0 {
		out.Elems = make([]Val, len(v.Elems))
		for i, e := range v.Elems {
			out.Elems[i] = e.Canon()
		}
	}
	if v.K == KMap && len(v.Keys) > 0 {
		out.Keys = make([]Val, len(v.Keys))
		ks := make([]string, len(v.Keys))
		order := make([]int, len(v.Keys))
		for i, k := range v.Keys {
			out.Keys[i] = k.Canon()
			ks[i] = out.Keys[i].String()
			order[i] = i
		}
		// keys that print alike can coexist (NaN != NaN: every insertion of a NaN key adds an entry): order those
		// entries by their values, so that the canonical form does not depend on the order they came in
		es := make([]string, len(v.Keys))
		for i := range v.Keys {
			es[i] = out.Elems[i].String()
		}
		sort.SliceStable(order, func(a, b int) bool {
			if ks[order[a]] != ks[order[b]] {
				return ks[order[a]] < ks[order[b]]
			}
			return es[order[a]] < es[order[b]]
		})
		keys := make([]Val, len(order))
		elems := make([]Val, len(order))
		for i, o := range order {
			keys[i] = out.Keys[o]
			elems[i] = out.Elems[o]
		}
		out.Keys, out.Elems = keys, elems
	}
	return out
}

// CanonString is Canon().String().
func (v Val) CanonString() string { return v.Canon().String() }

// Equal is structural equality (map entry order matters; compare Canon()s to ignore it).
func Equal(a, b Val) bool { return a.String() == b.String() }

// CanonEqual compares up to map entry order.
func CanonEqual(a, b Val) bool { return a.CanonString() == b.CanonString() }

// HasMultiMap reports whether v contains a map with two or more entries.
func (v Val) HasMultiMap() bool {
	if v.K == KMap && len(v.Elems) >= 2 {
		return true
	}
	for _, e := range v.Elems {
		if e.HasMultiMap() {
			return true
		}
	}
	for _, k := range v.Keys {
		if k.HasMultiMap() {
			return true
		}
	}
	return false
}

// Nodes counts the nodes of the tree.
func (v Val) Nodes() int {
	n := 1
	for _, e := range v.Elems {
		n += e.Nodes()
	}
	n += len(v.Keys)
	return n
}

// MaxLen is the largest container / string length in v.
func (v Val) MaxLen() int {
	m := 0
	switch v.K {
	case KStr:
		m = len(v.B)
	case KArr, KMap:
		m = len(v.Elems)
	}
	for _, e := range v.Elems {
		if x := e.MaxLen(); x > m {
			m = x
		}
	}
	for _, k := range v.Keys {
		if x := k.MaxLen(); x > m {
			m = x
		}
	}
	return m
}

// SizeBucket names a value size class for the distribution histograms.
func (v Val) SizeBucket() string {
	n := v.Nodes()
	switch {
	case n <= 1:
		return "nodes=1"
	case n <= 8:
		return "nodes<=8"
	case n <= 64:
		return "nodes<=64"
	case n <= 512:
		return "nodes<=512"
	}
	return "nodes>512"
}

// StripDeprecated removes deprecated message fields (the encoders never write them).
func StripDeprecated(env *schema.Env, ty schema.Ty, v Val) Val {
	return mapMsgFields(env, ty, v, func(def int, fd schema.DefField) bool { return !fd.Deprecated })
}

// Restrict drops the message fields that the old schema version does not know. ty and v are
// typed by envNew; Evolve keeps def indices, so def i of envNew is def i of envOld.
func Restrict(envOld, envNew *schema.Env, ty schema.Ty, v Val) Val {
	return mapMsgFields(envNew, ty, v, func(def int, fd schema.DefField) bool {
		if def >= len(envOld.Defs) {
			return false
		}
		for _, o := range envOld.Defs[def].Fields {
			if o.Idx == fd.Idx {
				return true
			}
		}
		return false
	})
}

func mapMsgFields(env *schema.Env, ty schema.Ty, v Val, keep func(def int, fd schema.DefField) bool) Val {
	out := v
	switch ty.K {
	case schema.TyArr:
		if v.K != KArr {
			return v
		}
		out.Elems = make([]Val, len(v.Elems))
		for i, e := range v.Elems {
			out.Elems[i] = mapMsgFields(env, *ty.Elem, e, keep)
		}
	case schema.TyMap:
		if v.K != KMap {
			return v
		}
		out.Elems = make([]Val, len(v.Elems))
		for i, e := range v.Elems {
			out.Elems[i] = mapMsgFields(env, *ty.Elem, e, keep)
		}
	case schema.TyRef:
		d := env.Defs[ty.Ref]
		switch d.Kind {
		case schema.Struct:
			if v.K != KStruct || len(v.Elems) != len(d.Fields) {
				return v
			}
			out.Elems = make([]Val, len(v.Elems))
			for i, e := range v.Elems {
				out.Elems[i] = mapMsgFields(env, d.Fields[i].Ty, e, keep)
			}
		case schema.Message:
			if v.K != KMsg {
				return v
			}
			out.Elems, out.Idx = nil, nil
			for i, e := range v.Elems {
				for _, fd := range d.Fields {
					if fd.Idx == v.Idx[i] {
						if keep(ty.Ref, fd) {
							out.Idx = append(out.Idx, v.Idx[i])
							out.Elems = append(out.Elems, mapMsgFields(env, fd.Ty, e, keep))
						}
						break
					}
				}
			}
		case schema.Union:
			if v.K != KUnion || len(v.Elems) != 1 {
				return v
			}
			for _, b := range d.Branches {
				if b.Disc == v.Disc {
					out.Elems = []Val{mapMsgFields(env, schema.Ty{K: schema.TyRef, Ref: b.Ref}, v.Elems[0], keep)}
				}
			}
		}
	}
	return out
}

// NestedStructShrinks reports whether v (typed by envNew at ty) contains a struct value in a nested
// position -- any struct that is not v itself -- which loses a message field when restricted to envOld.
// This is exactly the negation of the guard `TopStable` of the Lean theorem C04_unmarshal_evolved_partial:
// the only values on which the byte-slice decoders are known to mis-step (listed finding KF-C04-nested-struct).
func NestedStructShrinks(envOld, envNew *schema.Env, ty schema.Ty, v Val) bool {
	return nestedShrinks(envOld, envNew, ty, v, true)
}

func nestedShrinks(envOld, envNew *schema.Env, ty schema.Ty, v Val, top bool) bool {
	switch ty.K {
	case schema.TyArr, schema.TyMap:
		for _, e := range v.Elems {
			if nestedShrinks(envOld, envNew, *ty.Elem, e, false) {
				return true
			}
		}
	case schema.TyRef:
		if ty.Ref >= len(envNew.Defs) {
			return false
		}
		d := envNew.Defs[ty.Ref]
		switch d.Kind {
		case schema.Struct:
			if v.K != KStruct || len(v.Elems) != len(d.Fields) {
				return false
			}
			// the reader's Size() of what it decodes differs from the bytes on the wire when a message below
			// loses a field under the old schema, or carries a field the old schema marks deprecated (Size()
			// skips those)
			if !top && (Restrict(envOld, envNew, ty, v).String() != v.String() || holdsDeprecated(envOld, envNew, ty, v)) {
				return true
			}
			for i, e := range v.Elems {
				if nestedShrinks(envOld, envNew, d.Fields[i].Ty, e, false) {
					return true
				}
			}
		case schema.Message:
			if v.K != KMsg {
				return false
			}
			for i, e := range v.Elems {
				for _, fd := range d.Fields {
					if fd.Idx == v.Idx[i] {
						if nestedShrinks(envOld, envNew, fd.Ty, e, false) {
							return true
						}
						break
					}
				}
			}
		case schema.Union:
			if v.K != KUnion || len(v.Elems) != 1 {
				return false
			}
			for _, b := range d.Branches {
				if b.Disc == v.Disc {
					// a struct that IS the branch is the last thing its union decodes, and the union itself is stepped
					// over by the length on the wire: like a top-level struct, nothing is asked of its own size
					// (the Lean guard TopStable asks more here than the code needs; the listed class is the narrower one)
					return nestedShrinks(envOld, envNew, schema.Ty{K: schema.TyRef, Ref: b.Ref}, v.Elems[0], true)
				}
			}
		}
	}
	return false
}

// holdsDeprecated: does v (typed by envNew) contain a message field that envOld marks deprecated?
func holdsDeprecated(envOld, envNew *schema.Env, ty schema.Ty, v Val) bool {
	switch ty.K {
	case schema.TyArr, schema.TyMap:
		for _, e := range v.Elems {
			if holdsDeprecated(envOld, envNew, *ty.Elem, e) {
				return true
			}
		}
	case schema.TyRef:
		if ty.Ref >= len(envNew.Defs) {
			return false
		}
		d := envNew.Defs[ty.Ref]
		switch d.Kind {
		case schema.Struct:
			if v.K != KStruct || len(v.Elems) != len(d.Fields) {
				return false
			}
			for i, e := range v.Elems {
				if holdsDeprecated(envOld, envNew, d.Fields[i].Ty, e) {
					return true
				}
			}
		case schema.Message:
			if v.K != KMsg {
				return false
			}
			for i, e := range v.Elems {
				if ty.Ref < len(envOld.Defs) {
					for _, o := range envOld.Defs[ty.Ref].Fields {
						if o.Idx == v.Idx[i] && o.Deprecated {
							return true
						}
					}
				}
				for _, fd := range d.Fields {
					if fd.Idx == v.Idx[i] {
						if holdsDeprecated(envOld, envNew, fd.Ty, e) {
							return true
						}
						break
					}
				}
			}
		case schema.Union:
			if v.K != KUnion || len(v.Elems) != 1 {
				return false
			}
			for _, b := range d.Branches {
				if b.Disc == v.Disc {
					return holdsDeprecated(envOld, envNew, schema.Ty{K: schema.TyRef, Ref: b.Ref}, v.Elems[0])
				}
			}
		}
	}
	return false
}

// PlantLongString returns a copy of v in which the LAST string leaf in field order (array elements, struct and
// message fields, map values, union members; never a map key) is replaced by an n-byte ASCII string, and
// whether there was such a leaf. Long strings are where a decoder may switch to a different read strategy.
func PlantLongString(v Val, n int) (Val, bool) {
	switch v.K {
	case KStr:
		b := make([]byte, n)
		for i := range b {
			b[i] = byte('a' + i%26)
		}
		return Val{K: KStr, B: b}, true
	case KArr, KStruct, KMsg, KMap, KUnion:
		for i := len(v.Elems) - 1; i >= 0; i-- {
			if e, ok := PlantLongString(v.Elems[i], n); ok {
				out := v
				out.Elems = append([]Val(nil), v.Elems...)
				out.Elems[i] = e
				return out, true
			}
		}
	}
	return v, false
}

// CollidingDateKeys reports whether v (typed by env at ty) holds a date-keyed map in which two keys print alike.
// The protocol prints a time.Time as its 100ns tick count (UnixNano()/100); on corrupted input ReadDateBytes
// multiplies an arbitrary int64 by 100 with wrap-around, and two instants that differ below one tick are distinct
// keys of the Go map but one key of the printed value -- an answer of this kind says less than the Go value holds.
func CollidingDateKeys(env *schema.Env, ty schema.Ty, v Val) bool {
	switch ty.K {
	case schema.TyArr:
		for _, e := range v.Elems {
			if CollidingDateKeys(env, *ty.Elem, e) {
				return true
			}
		}
	case schema.TyMap:
		if ty.Key.K == schema.TyDate {
			seen := map[string]bool{}
			for _, k := range v.Keys {
				s := k.String()
				if seen[s] {
					return true
				}
				seen[s] = true
			}
		}
		for _, e := range v.Elems {
			if CollidingDateKeys(env, *ty.Elem, e) {
				return true
			}
		}
	case schema.TyRef:
		if ty.Ref < 0 || ty.Ref >= len(env.Defs) {
			return false
		}
		d := env.Defs[ty.Ref]
		switch d.Kind {
		case schema.Struct:
			for i, e := range v.Elems {
				if i < len(d.Fields) && CollidingDateKeys(env, d.Fields[i].Ty, e) {
					return true
				}
			}
		case schema.Message:
			for i, e := range v.Elems {
				for _, fd := range d.Fields {
					if i < len(v.Idx) && fd.Idx == v.Idx[i] && CollidingDateKeys(env, fd.Ty, e) {
						return true
					}
				}
			}
		case schema.Union:
			for _, b := range d.Branches {
				if b.Disc == v.Disc && len(v.Elems) == 1 {
					return CollidingDateKeys(env, schema.Ty{K: schema.TyRef, Ref: b.Ref}, v.Elems[0])
				}
			}
		}
	}
	return false
}

// HasUnion reports whether v contains a union value with a member.
func (v Val) HasUnion() bool {
	if v.K == KUnion && v.Disc != NoMember {
		return true
	}
	for _, e := range v.Elems {
		if e.HasUnion() {
			return true
		}
	}
	return false
}
