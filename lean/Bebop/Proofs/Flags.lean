/-
  Flags: the width-typed evaluator of [flags] member expressions (`evalExpr`, the model of
  evaluateBitflagExpr) computes the value the Spec assigns (`specEval`, unbounded integers) whenever no
  intermediate value leaves the base type.
-/
import Bebop.Text.Parser
import Bebop.Text.Grammar

namespace Bebop.Text

/-! ### literals -/

/-- The literal without its leading '-'. -/
def litBody (t : Str) : Str :=
  match t with
  | 0x2d :: r => r
  | _ => t

def litNeg (t : Str) : Bool :=
  match t with
  | 0x2d :: _ => true
  | _ => false

/-- Magnitude as the Spec reads it. -/
def litMag (body : Str) : Option Nat :=
  match body with
  | 0x30 :: x :: rest => if x == 0x78 || x == 0x58 then parseDigits 16 rest 0 else none
  | _ => parseDigits 10 body 0

theorem litValue_eq (t : Str) :
    litValue t = (litMag (litBody t)).map (fun (n : Nat) => if litNeg t then -(n : Int) else (n : Int)) := by
  rcases t with _ | ⟨c, r⟩
  · simp [litValue, litMag, litBody, litNeg, parseDigits]
  · by_cases h : c = 0x2d
    · subst h
      simp only [litValue, litBody, litNeg]
      split
      · simp [litMag, parseDigits, digitVal]
      all_goals
        rename_i heq
        unfold litMag
        simp only [↓reduceIte]
        split at heq <;> split <;>
          first
          | (rw [heq]; rfl)
          | (exfalso; simp_all; done)
          | (injections; subst_vars; injections; subst_vars; rw [heq]; rfl)
          | (injections; subst_vars; rw [heq]; rfl)
    · simp only [litValue, litBody, litNeg, h, reduceCtorEq, List.cons.injEq, false_and, imp_false, not_false_eq_true, implies_true]
      split
      · rename_i heq
        simp only [List.cons.injEq] at heq
        obtain ⟨rfl, rfl⟩ := heq
        simp [litMag, parseDigits, digitVal]
      all_goals
        rename_i heq _
        unfold litMag
        simp only [↓reduceIte]
        split at heq <;> split <;>
          first
          | (rw [heq]; rfl)
          | (exfalso; simp_all; done)
          | (injections; subst_vars; injections; subst_vars; rw [heq]; rfl)
          | (injections; subst_vars; rw [heq]; rfl)

/-- Go's base-0 syntax needs at least one digit (after the `0x` prefix too); the Spec's `litValue`
    reads the empty digit string as 0. -/
def HasDigits (body : Str) : Prop := body ≠ [] ∧ ∀ x, body ≠ [0x30, x]

def CanonicalBody (body : Str) : Prop := ∀ x rest, body = 0x30 :: x :: rest → x = 0x78 ∨ x = 0x58

theorem parseMagnitude_eq_litMag (body : Str) (hc : CanonicalBody body) (hd : HasDigits body) :
    parseMagnitude body true = litMag body := by
  obtain ⟨hne, h2⟩ := hd
  rcases body with _ | ⟨c, _ | ⟨x, rest⟩⟩
  · exact absurd rfl hne
  · simp [parseMagnitude, litMag]
  · by_cases hc0 : c = 0x30
    · subst hc0
      have hx := hc x rest rfl
      have hr : rest ≠ [] := by
        intro h; subst h; exact h2 x rfl
      rcases hx with rfl | rfl <;> simp [parseMagnitude, litMag, hr]
    · simp [parseMagnitude, litMag, hc0]

/-- Without the digit guard: whatever Go's base-0 parse accepts, the Spec reads the same way. -/
theorem parseMagnitude_litMag (body : Str) (hc : CanonicalBody body) (n : Nat)
    (h : parseMagnitude body true = some n) : litMag body = some n := by
  rcases body with _ | ⟨c, _ | ⟨x, rest⟩⟩
  · simp [parseMagnitude] at h
  · simpa [parseMagnitude, litMag] using h
  · by_cases hc0 : c = 0x30
    · subst hc0
      have hx := hc x rest rfl
      rcases hx with rfl | rfl
      · simp [parseMagnitude] at h; simp [litMag, h.2]
      · simp [parseMagnitude] at h; simp [litMag, h.2]
    · simpa [parseMagnitude, litMag, hc0] using h

/-- No leading zero followed by more digits: Go's base-0 parse reads `010` as octal 8 (and knows `0b`,
    `0o`), the Spec's `litValue` does not. -/
def CanonicalLit (t : Str) : Prop := CanonicalBody (litBody t)

/-- The literal does not start with '+' (Go's ParseInt accepts a sign, the Spec has no `+`). -/
def NoPlus (t : Str) : Prop := ∀ r, t ≠ 0x2b :: r

@[simp] theorem litBody_nil : litBody [] = [] := rfl
@[simp] theorem litNeg_nil : litNeg [] = false := rfl
@[simp] theorem litBody_minus (r : Str) : litBody (0x2d :: r) = r := rfl
@[simp] theorem litNeg_minus (r : Str) : litNeg (0x2d :: r) = true := rfl
theorem litBody_of_ne {c : Byte} (r : Str) (h : c ≠ 0x2d) : litBody (c :: r) = c :: r := by
  simp [litBody, h]
theorem litNeg_of_ne {c : Byte} (r : Str) (h : c ≠ 0x2d) : litNeg (c :: r) = false := by
  simp [litNeg, h]

theorem litMag_plus (r : Str) : litMag (0x2b :: r) = none := by
  simp [litMag, parseDigits, digitVal]

theorem parseUint_litValue (t : Str) (bits n : Nat) (hc : CanonicalLit t)
    (h : parseUint t true bits = some n) : litValue t = some (n : Int) ∧ n < 2 ^ bits := by
  rcases t with _ | ⟨c, r⟩
  · simp [parseUint, parseMagnitude] at h
  · by_cases h1 : c = 0x2b
    · subst h1; simp [parseUint] at h
    · by_cases h2 : c = 0x2d
      · subst h2; simp [parseUint] at h
      · unfold CanonicalLit at hc
        rw [litBody_of_ne r h2] at hc
        unfold parseUint at h
        split at h
        · rename_i hh; injection hh with hh; exact absurd hh h1
        · rename_i hh; injection hh with hh; exact absurd hh h2
        · split at h
          · rename_i m hm
            split at h
            · rename_i hlt
              injection h with h; subst h
              have := parseMagnitude_litMag _ hc _ hm
              refine ⟨?_, hlt⟩
              rw [litValue_eq, litBody_of_ne r h2, litNeg_of_ne r h2, this]; rfl
            · exact absurd h (by simp)
          · exact absurd h (by simp)

theorem parseInt_minus (r : Str) (bits : Nat) :
    parseInt (0x2d :: r) true bits =
      (parseMagnitude r true).bind (fun n => if n ≤ 2 ^ (bits - 1) then some (-(n : Int)) else none) := by
  simp only [parseInt]
  cases parseMagnitude r true <;> rfl

theorem parseInt_of_ne {c : Byte} (r : Str) (bits : Nat) (h1 : c ≠ 0x2b) (h2 : c ≠ 0x2d) :
    parseInt (c :: r) true bits =
      (parseMagnitude (c :: r) true).bind (fun n => if n < 2 ^ (bits - 1) then some (n : Int) else none) := by
  simp only [parseInt, h1, h2, reduceCtorEq, List.cons.injEq, false_and, imp_false, not_false_eq_true, implies_true]
  cases parseMagnitude (c :: r) true <;> rfl

theorem parseUint_of_ne {c : Byte} (r : Str) (bits : Nat) (h1 : c ≠ 0x2b) (h2 : c ≠ 0x2d) :
    parseUint (c :: r) true bits =
      (parseMagnitude (c :: r) true).bind (fun n => if n < 2 ^ bits then some n else none) := by
  simp only [parseUint, h1, h2, List.cons.injEq, false_and, imp_false, not_false_eq_true, implies_true]
  cases parseMagnitude (c :: r) true <;> rfl

theorem parseInt_litValue (t : Str) (bits : Nat) (v : Int) (hc : CanonicalLit t) (hp : NoPlus t)
    (h : parseInt t true bits = some v) :
    litValue t = some v ∧ -((2 ^ (bits - 1) : Nat) : Int) ≤ v ∧ v < ((2 ^ (bits - 1) : Nat) : Int) := by
  rcases t with _ | ⟨c, r⟩
  · simp [parseInt, parseMagnitude] at h
  · by_cases h1 : c = 0x2b
    · subst h1; exact absurd rfl (hp r)
    · by_cases h2 : c = 0x2d
      · subst h2
        unfold CanonicalLit at hc
        rw [litBody_minus] at hc
        rw [parseInt_minus] at h
        cases hm : parseMagnitude r true with
        | none => simp [hm] at h
        | some n =>
          simp only [hm, Option.bind_some] at h
          split at h
          · rename_i hle
            injection h with h; subst h
            have := parseMagnitude_litMag _ hc _ hm
            refine ⟨?_, ?_, ?_⟩
            · rw [litValue_eq, litBody_minus, litNeg_minus, this]; rfl
            · omega
            · have : 0 < 2 ^ (bits - 1) := Nat.two_pow_pos _
              omega
          · exact absurd h (by simp)
      · unfold CanonicalLit at hc
        rw [litBody_of_ne r h2] at hc
        rw [parseInt_of_ne r bits h1 h2] at h
        cases hm : parseMagnitude (c :: r) true with
        | none => simp [hm] at h
        | some n =>
          simp only [hm, Option.bind_some] at h
          split at h
          · rename_i hlt
            injection h with h; subst h
            have := parseMagnitude_litMag _ hc _ hm
            refine ⟨?_, ?_, ?_⟩
            · rw [litValue_eq, litBody_of_ne r h2, litNeg_of_ne r h2, this]; rfl
            · omega
            · omega
          · exact absurd h (by simp)

end Bebop.Text
