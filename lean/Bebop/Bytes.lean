/-
  Bytes: little-endian fixed-width scalars as lists of bytes.

  An n-byte scalar on the wire is modelled as a natural number `< 256^n` (its bit
  pattern).  Signed integers, floats and dates are their two's-complement / IEEE
  bit patterns, so NaN payloads and negative numbers are ordinary values here.
-/
namespace Bebop

abbrev Byte := UInt8

/-- `leBytes k n`: the `k` low-order bytes of `n`, least significant first. -/
def leBytes : Nat → Nat → List Byte
  | 0, _ => []
  | k+1, n => UInt8.ofNat (n % 256) :: leBytes k (n / 256)

/-- Value of a little-endian byte string. -/
def ofLe : List Byte → Nat
  | [] => 0
  | b :: bs => b.toNat + 256 * ofLe bs

@[simp] theorem length_leBytes (k n : Nat) : (leBytes k n).length = k := by
  induction k generalizing n with
  | zero => rfl
  | succ k ih => simp [leBytes, ih]

theorem ofLe_lt (bs : List Byte) : ofLe bs < 256 ^ bs.length := by
  induction bs with
  | nil => simp [ofLe]
  | cons b bs ih =>
    have hb : b.toNat < 256 := b.toNat_lt
    simp only [ofLe, List.length_cons, Nat.pow_succ]
    omega

private theorem toNat_ofNat_mod (n : Nat) : (UInt8.ofNat (n % 256)).toNat = n % 256 := by
  have h : n % 256 < 256 := Nat.mod_lt _ (by decide)
  simp [UInt8.toNat_ofNat']

/-- Reading back what was written returns the value, for every bit pattern that fits. -/
theorem ofLe_leBytes (k n : Nat) (h : n < 256 ^ k) : ofLe (leBytes k n) = n := by
  induction k generalizing n with
  | zero => simp at h; simp [leBytes, ofLe, h]
  | succ k ih =>
    have h' : n / 256 < 256 ^ k := by
      rw [Nat.pow_succ] at h
      exact Nat.div_lt_of_lt_mul (by rw [Nat.mul_comm]; exact h)
    simp only [leBytes, ofLe, toNat_ofNat_mod, ih _ h']
    omega

/-- In general reading back yields the value reduced modulo the width (Go's integer conversion). -/
theorem ofLe_leBytes_mod (k n : Nat) : ofLe (leBytes k n) = n % 256 ^ k := by
  induction k generalizing n with
  | zero => simp [leBytes, ofLe, Nat.mod_one]
  | succ k ih =>
    simp only [leBytes, ofLe, toNat_ofNat_mod, ih]
    rw [Nat.pow_succ, Nat.mul_comm (256 ^ k) 256, Nat.mod_mul]

private theorem ofNat_toNat_add (b : Byte) (m : Nat) :
    UInt8.ofNat ((b.toNat + 256 * m) % 256) = b := by
  have hb : b.toNat < 256 := b.toNat_lt
  have : (b.toNat + 256 * m) % 256 = b.toNat := by omega
  rw [this]; simp

/-- Writing what was read returns the same bytes. -/
theorem leBytes_ofLe (bs : List Byte) : leBytes bs.length (ofLe bs) = bs := by
  induction bs with
  | nil => rfl
  | cons b bs ih =>
    have hb : b.toNat < 256 := b.toNat_lt
    simp only [List.length_cons, leBytes, ofLe, ofNat_toNat_add]
    have : (b.toNat + 256 * ofLe bs) / 256 = ofLe bs := by omega
    rw [this, ih]

theorem leBytes_inj (k a b : Nat) (ha : a < 256 ^ k) (hb : b < 256 ^ k)
    (h : leBytes k a = leBytes k b) : a = b := by
  rw [← ofLe_leBytes k a ha, ← ofLe_leBytes k b hb, h]

/-- Little-endian layout: the first byte is the least significant one. -/
theorem leBytes_head (k n : Nat) : (leBytes (k+1) n).head? = some (UInt8.ofNat (n % 256)) := rfl

end Bebop
