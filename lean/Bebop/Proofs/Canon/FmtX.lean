/-
  Canon/FmtX: the Format model on the token list of a schema of the extended sub-language emits the
  canonical text of the schema.
-/
import Bebop.Proofs.Canon.Fmt
import Bebop.Proofs.Canon.ParseX

namespace Bebop.Text
namespace Canon

/-- takeToks over the next tokens `ts` -/
theorem takeToks_ok (sep : List Byte) : ∀ (ts : List Token) (l : List Token) (t : TR) (acc : List Byte),
    Src (ts ++ l) t →
    ∃ t', takeToks sep ts.length t acc = (ts.foldl (fun a tk => a ++ sep ++ tk.concrete) acc, t') ∧ Src l t' ∧
      ∀ tk, ts.getLast? = some tk → t'.nextTok = tk ∧ Lex l t'
  | [], l, t, acc, h => ⟨t, rfl, h, fun _ h => by cases h⟩
  | a :: ts, l, t, acc, h => by
    obtain ⟨t1, h1, hl1, htok1⟩ := nextConc_ok (tok := a) (l := ts ++ l) h
    obtain ⟨t', h2, hsrc2, hlast⟩ := takeToks_ok sep ts l t1 (acc ++ sep ++ a.concrete) hl1.src
    refine ⟨t', ?_, hsrc2, ?_⟩
    · simp only [List.length_cons, takeToks, h1, List.foldl_cons]
      exact h2
    · intro tk htk
      cases ts with
      | nil =>
        simp at htk
        subst htk
        simp only [List.length_nil, takeToks, List.foldl_nil, Prod.mk.injEq, true_and] at h2
        subst h2
        exact ⟨htok1, hl1⟩
      | cons c ts => exact hlast tk (by simpa using htk)

theorem strOfAscii_brackets : formatType.strOfAscii "[]" = [91, 93] := by decide

theorem arrSuffix_ok : ∀ (k f : Nat) (bs : List Byte) (x : Lexeme) (r : List Lexeme) (t : TR), k + 1 ≤ f →
    x.tok.kind ≠ .openSquare → Src (toks (sufLex k (x :: r))) t →
    ∃ t', formatType.arrSuffix f t bs = some (bs ++ sufText k, t') ∧ Src (toks (x :: r)) t'
  | 0, f, bs, x, r, t, hf, hx, h => by
    obtain ⟨f, rfl⟩ : ∃ g, f = g + 1 := ⟨f - 1, by omega⟩
    obtain ⟨t1, hn, htok, hl⟩ := Src.step (tok := x.tok) (l := toks r) h
    refine ⟨{ t1 with keep := true }, ?_, hl.unNext' htok⟩
    have hk : (t1.nextTok.kind == TK.openSquare) = false := by
      rw [htok]; cases hb : x.tok.kind == TK.openSquare with
      | false => rfl
      | true => exact absurd (eq_of_beq hb) hx
    simp only [formatType.arrSuffix, hn, hk, Bool.and_false, Bool.false_eq_true, if_false, sufText, List.append_nil]
  | k + 1, f, bs, x, r, t, hf, hx, h => by
    obtain ⟨f, rfl⟩ : ∃ g, f = g + 1 := ⟨f - 1, by omega⟩
    obtain ⟨t1, hn, htok, hl⟩ := Src.step (tok := tLB) (l := tRB :: toks (sufLex k (x :: r))) h
    obtain ⟨t2, hn2, _, hl2⟩ := hl.src.step
    obtain ⟨t', h3, hsrc3⟩ := arrSuffix_ok k f (bs ++ [91, 93]) x r t2 (by omega) hx hl2.src
    refine ⟨t', ?_, hsrc3⟩
    have hk : (t1.nextTok.kind == TK.openSquare) = true := by rw [htok]; rfl
    simp only [formatType.arrSuffix, hn, hk, Bool.and_self, if_true, hn2, strOfAscii_brackets]
    rw [h3]
    simp [sufText]

def firstKind : CType → TK
  | .name .. => .ident
  | .array .. => .kArray
  | .map .. => .kMap

/-- formatType, entered right after `Next` has delivered the first token of the type -/
theorem formatType_okX : ∀ (ty : CType) (f : Nat) (s : List Byte) (x : Lexeme) (r : List Lexeme) (t : TR),
    tyFuel ty ≤ f → x.tok.kind ≠ .openSquare → Src (toks (typeLex ty s (x :: r))) t →
    ∃ t1 t', next t = (true, t1) ∧ t1.nextTok.kind = firstKind ty ∧ formatType f t1 = some (typeText ty, t') ∧
      Src (toks (x :: r)) t'
  | .name n k, f, s, x, r, t, hf, hx, h => by
    simp only [tyFuel] at hf
    obtain ⟨f, rfl⟩ : ∃ g, f = g + 1 := ⟨f - 1, by omega⟩
    obtain ⟨t1, hn, htok, hl⟩ := Src.step (tok := tId n) (l := toks (sufLex k (x :: r))) h
    obtain ⟨t', h2, hsrc2⟩ := arrSuffix_ok k f n x r t1 (by omega) hx hl.src
    refine ⟨t1, t', hn, by rw [htok]; rfl, ?_, hsrc2⟩
    simp only [formatType, htok, h2, typeText]
  | .array ty k, f, s, x, r, t, hf, hx, h => by
    simp only [tyFuel] at hf
    obtain ⟨f, rfl⟩ : ∃ g, f = g + 1 := ⟨f - 1, by omega⟩
    obtain ⟨t1, hn, htok, hl⟩ := Src.step (tok := ⟨.kArray, kwArray⟩)
      (l := tLB :: toks (typeLex ty [] (⟨[], tRB⟩ :: sufLex k (x :: r)))) h
    obtain ⟨t2, h2, hsrc2, _⟩ := takeToks_ok [] [tLB] _ t1 kwArray hl.src
    obtain ⟨t3, t4, hn3, _, h4, hsrc4⟩ := formatType_okX ty f [] ⟨[], tRB⟩ (sufLex k (x :: r)) t2 (by omega) (by decide) hsrc2
    obtain ⟨t5, h5, hl5, _⟩ := nextConc_ok (tok := tRB) hsrc4
    obtain ⟨t', h6, hsrc6⟩ := arrSuffix_ok k f (kwArray ++ [91] ++ typeText ty ++ [93]) x r t5 (by omega) hx hl5.src
    refine ⟨t1, t', hn, by rw [htok]; rfl, ?_, hsrc6⟩
    simp only [List.length_singleton, List.foldl_cons, List.foldl_nil, List.append_nil] at h2
    simp only [formatType, htok, h2, hn3, h4, h5]
    rw [h6]
    simp [typeText]
  | .map key ty k, f, s, x, r, t, hf, hx, h => by
    simp only [tyFuel] at hf
    obtain ⟨f, rfl⟩ : ∃ g, f = g + 1 := ⟨f - 1, by omega⟩
    obtain ⟨t1, hn, htok, hl⟩ := Src.step (tok := ⟨.kMap, kwMap⟩)
      (l := tLB :: tId key :: tComma :: toks (typeLex ty [32] (⟨[], tRB⟩ :: sufLex k (x :: r)))) h
    obtain ⟨t2, h2, hsrc2, _⟩ := takeToks_ok [] [tLB, tId key, tComma] _ t1 kwMap hl.src
    obtain ⟨t3, t4, hn3, _, h4, hsrc4⟩ := formatType_okX ty f [32] ⟨[], tRB⟩ (sufLex k (x :: r)) t2 (by omega) (by decide) hsrc2
    obtain ⟨t5, h5, hl5, _⟩ := nextConc_ok (tok := tRB) hsrc4
    obtain ⟨t', h6, hsrc6⟩ := arrSuffix_ok k f (kwMap ++ [91] ++ key ++ [44] ++ [32] ++ typeText ty ++ [93]) x r t5
      (by omega) hx hl5.src
    refine ⟨t1, t', hn, by rw [htok]; rfl, ?_, hsrc6⟩
    simp only [List.length_cons, List.length_nil, List.foldl_cons, List.foldl_nil, List.append_nil] at h2
    simp only [formatType, htok, h2, hn3, h4, h5]
    rw [h6]
    simp [typeText]

/-- the `[deprecated("msg")]` line (the `[` has just been read) -/
theorem fmtAttr_dep (ind : List Byte) (m : Str) {l : List Token} {t : TR} (htok : t.nextTok = tLB)
    (h : Src (⟨.kDeprecated, kwDeprecated⟩ :: tLP :: tStr m :: tRP :: tRB :: l) t) :
    ∃ t', fmtAttr ind t = (depText ind (some m), t') ∧ Lex l t' := by
  obtain ⟨t', h1, _, hlast⟩ := takeToks_ok [] [⟨.kDeprecated, kwDeprecated⟩, tLP, tStr m, tRP, tRB] l t
    (ind ++ [91]) h
  refine ⟨t', ?_, (hlast tRB rfl).2⟩
  simp only [List.length_cons, List.length_nil, List.foldl_cons, List.foldl_nil, List.append_nil] at h1
  simp only [fmtAttr, htok, h1, depText]
  simp

/-- `// doc` lines in a struct body: one iteration each -/
theorem struct_doc_fmt (fuel : Nat) (ind : List Byte) : ∀ (cs : List Str) (f : Nat) (acc : List Byte) (r : List Lexeme)
    (t : TR), Src (toks (docLex ind cs r)) t →
    ∃ t', Src (toks r) t' ∧ formatStruct.loop fuel ind (f + cs.length) t acc =
      formatStruct.loop fuel ind f t' (acc ++ cmtText ind cs)
  | [], f, acc, r, t, h => ⟨t, h, by simp [cmtText]⟩
  | c :: cs, f, acc, r, t, h => by
    simp only [docLex] at h
    obtain ⟨t1, hn, htok, hl⟩ := Src.step (tok := tCmt c) h
    have hk1 : t1.nextTok.kind = .lineComment := by rw [htok]
    obtain ⟨t', hsrc, he⟩ := struct_doc_fmt fuel ind cs f (acc ++ ind ++ (tCmt c).concrete) r t1 hl.src
    refine ⟨t', hsrc, ?_⟩
    rw [show f + (c :: cs).length = (f + cs.length) + 1 by simp; omega, formatStruct.loop]
    simp only [hn, hk1, htok, he]
    simp [cmtText]

/-- the number of loop iterations of the formatter a field line takes -/
theorem fieldsFmt_ok (fuel : Nat) (ind : List Byte) : ∀ (fs : List CField) (f : Nat) (acc : List Byte)
    (r : List Lexeme) (t : TR), fieldsLen fs ≤ f → fieldsLen fs ≤ fuel → Src (toks (fieldsLex ind fs r)) t →
    ∃ t', formatStruct.loop fuel ind f t acc = some (acc ++ fieldsText ind fs, t') ∧ Lex (toks (⟨[], tNl⟩ :: r)) t'
  | [], f, acc, r, t, hf, _, h => by
    obtain ⟨f, rfl⟩ : ∃ g, f = g + 1 := ⟨f - 1, by simp [fieldsLen] at hf; omega⟩
    obtain ⟨t1, hn, htok, hl⟩ := Src.step (tok := tClose) (l := toks (⟨[], tNl⟩ :: r)) h
    refine ⟨t1, ?_, hl⟩
    rw [formatStruct.loop]
    simp only [hn, htok, fieldsText]
    simp
  | g :: fs, f, acc, r, t, hf, hfu, h => by
    have hty : tyFuel g.ty ≤ fuel := by
      have := tyFuel_le g.ty
      simp only [fieldsLen, fieldLen] at hfu; omega
    have hti : trailIter g.trail ≤ 2 := by cases g.trail <;> simp [trailIter]
    simp only [fieldsLex, fieldLex] at h
    -- the field line itself
    have hfield : ∀ (f : Nat) (acc : List Byte) (t : TR),
        Src (toks (typeLex g.ty ind (⟨[32], tId g.name⟩ :: ⟨[], tSemi⟩ :: trailLex g.trail (fieldsLex ind fs r)))) t →
        ∃ t', Lex (toks (fieldsLex ind fs r)) t' ∧ formatStruct.loop fuel ind (f + trailIter g.trail) t acc =
          formatStruct.loop fuel ind f t' (acc ++ ind ++ typeText g.ty ++ [32] ++ g.name ++ [59] ++ trailText g.trail) := by
      intro f acc t h
      obtain ⟨t1, t2, hn, hk1, h2, hsrc2⟩ := formatType_okX g.ty fuel ind ⟨[32], tId g.name⟩ _ t hty
        (by intro h; cases h) h
      obtain ⟨t3, h3, hl3, _⟩ := nextConc_ok (tok := tId g.name) hsrc2
      obtain ⟨t4, hn4, _, hl4⟩ := hl3.src.step
      cases htr : g.trail with
      | none =>
        rw [htr] at hl4
        simp only [trailLex] at hl4
        obtain ⟨t5, hn5, htok5, hl5⟩ := hl4.src.step
        have hk5 : t5.nextTok.kind = .newline := by rw [htok5]
        obtain ⟨t6, hn6, htok6, hl6⟩ := (hl5.unNext' htok5).step
        have hk6 : t6.nextTok.kind = .newline := by rw [htok6]
        refine ⟨t6, hl6, ?_⟩
        have hne : (TK.newline == TK.lineComment) = false := by decide
        rw [show f + trailIter none = (f + 1) + 1 from rfl, formatStruct.loop]
        have hbody : (match formatType fuel t1 with
            | none => none
            | some (ty, t2) =>
              let (nm, t3) := nextConc t2
              let (_, t4) := next t3
              let fd := ind ++ ty ++ [32] ++ nm ++ sq ";"
              match next t4 with
              | (false, t5) => some (acc ++ fd ++ [10], t5)
              | (true, t5) =>
                if t5.nextTok.kind == .lineComment then
                  formatStruct.loop fuel ind (f + 1) t5 (acc ++ fd ++ [32] ++ t5.nextTok.concrete)
                else formatStruct.loop fuel ind (f + 1) { t5 with keep := true } (acc ++ fd ++ [10])) =
            formatStruct.loop fuel ind f t6 (acc ++ ind ++ typeText g.ty ++ [32] ++ g.name ++ [59] ++ trailText none) := by
          simp only [h2, h3, hn4, hn5, hk5, hne, Bool.false_eq_true, if_false]
          rw [formatStruct.loop]
          simp only [hn6, hk6, sq_semi]
          simp [trailText]
        simp only [hn]
        cases hty' : g.ty <;> simp only [hty', firstKind] at hk1 <;> simp only [hk1] <;> rw [← hty'] <;> exact hbody
      | some c =>
        rw [htr] at hl4
        simp only [trailLex] at hl4
        obtain ⟨t5, hn5, htok5, hl5⟩ := hl4.src.step
        have hk5 : (t5.nextTok.kind == TK.lineComment) = true := by rw [htok5]; rfl
        refine ⟨t5, hl5, ?_⟩
        rw [show f + trailIter (some c) = f + 1 from rfl, formatStruct.loop]
        have hbody : (match formatType fuel t1 with
            | none => none
            | some (ty, t2) =>
              let (nm, t3) := nextConc t2
              let (_, t4) := next t3
              let fd := ind ++ ty ++ [32] ++ nm ++ sq ";"
              match next t4 with
              | (false, t5) => some (acc ++ fd ++ [10], t5)
              | (true, t5) =>
                if t5.nextTok.kind == .lineComment then
                  formatStruct.loop fuel ind f t5 (acc ++ fd ++ [32] ++ t5.nextTok.concrete)
                else formatStruct.loop fuel ind f { t5 with keep := true } (acc ++ fd ++ [10])) =
            formatStruct.loop fuel ind f t5 (acc ++ ind ++ typeText g.ty ++ [32] ++ g.name ++ [59] ++ trailText (some c)) := by
          simp only [h2, h3, hn4, hn5, hk5, if_true, htok5, sq_semi]
          congr 1
          simp [trailText]
        simp only [hn]
        cases hty' : g.ty <;> simp only [hty', firstKind] at hk1 <;> simp only [hk1] <;> rw [← hty'] <;> exact hbody
    -- the doc lines
    obtain ⟨f, rfl⟩ : ∃ k, f = k + g.doc.length := ⟨f - g.doc.length, by simp only [fieldsLen, fieldLen] at hf; omega⟩
    obtain ⟨t0, hsrc0, he0⟩ := struct_doc_fmt fuel ind g.doc f acc _ t h
    rw [he0]
    cases hd : g.dep with
    | none =>
      rw [hd] at hsrc0
      simp only [depLex] at hsrc0
      obtain ⟨f, rfl⟩ : ∃ k, f = k + trailIter g.trail :=
        ⟨f - trailIter g.trail, by simp only [fieldsLen, fieldLen] at hf; omega⟩
      obtain ⟨t1, hl1, he1⟩ := hfield f (acc ++ cmtText ind g.doc) t0 hsrc0
      obtain ⟨t', h2, hl2⟩ := fieldsFmt_ok fuel ind fs f _ r t1
        (by simp only [fieldsLen, fieldLen] at hf; omega) (by simp only [fieldsLen] at hfu; omega) hl1.src
      refine ⟨t', ?_, hl2⟩
      rw [he1, h2]
      simp [fieldsText, hd, depText]
    | some m =>
      rw [hd] at hsrc0
      simp only [depLex] at hsrc0
      obtain ⟨f, rfl⟩ : ∃ k, f = k + trailIter g.trail + 2 :=
        ⟨f - trailIter g.trail - 2, by simp only [fieldsLen, fieldLen, hd, depLen] at hf; omega⟩
      obtain ⟨ta, hn0, htok0, hl0⟩ := Src.step (tok := tLB) hsrc0
      obtain ⟨t1, h1, hl1⟩ := fmtAttr_dep ind m htok0 hl0.src
      obtain ⟨t2, hn2, htok2, hl2⟩ := hl1.src.step
      obtain ⟨t3, hl3, he3⟩ := hfield f (acc ++ cmtText ind g.doc ++ depText ind (some m)) t2 hl2.src
      obtain ⟨t', h4, hl4⟩ := fieldsFmt_ok fuel ind fs f _ r t3
        (by simp only [fieldsLen, fieldLen, hd, depLen] at hf; omega) (by simp only [fieldsLen] at hfu; omega) hl3.src
      refine ⟨t', ?_, hl4⟩
      have hk0 : ta.nextTok.kind = .openSquare := by rw [htok0]
      have hk2 : t2.nextTok.kind = .newline := by rw [htok2]
      rw [show f + trailIter g.trail + 2 = (f + trailIter g.trail + 1) + 1 from rfl, formatStruct.loop]
      simp only [hn0, hk0, h1]
      rw [formatStruct.loop]
      simp only [hn2, hk2]
      rw [he3, h4]
      simp [fieldsText, hd]

theorem sq_readonly : sq "readonly " = kwReadonly ++ [32] := by decide

/-- formatStruct (the `struct` keyword has just been read) -/
theorem formatStructX_ok (fuel : Nat) (ro : Bool) (ind : List Byte) (name : Str) (fs : List CField)
    (hfu : fieldsLen fs + 1 ≤ fuel) (r : List Lexeme) (t : TR) (htok : t.nextTok = ⟨.kStruct, kwStruct⟩)
    (h : Src (tId name :: tOpen :: tNl :: toks (fieldsLex ind fs r)) t) :
    ∃ t', formatStruct fuel t ro ind =
        some ((if ro then kwReadonly ++ [32] else []) ++ kwStruct ++ [32] ++ name ++ [32, 123, 10] ++ fieldsText ind fs, t') ∧
      Lex (toks (⟨[], tNl⟩ :: r)) t' := by
  obtain ⟨fuel, rfl⟩ : ∃ g, fuel = g + 1 := ⟨fuel - 1, by omega⟩
  obtain ⟨t1, h1, hsrc1, _⟩ := takeToks_ok [32] [tId name, tOpen] _ t
    ((if ro then sq "readonly " else []) ++ kwStruct) h
  obtain ⟨t2, hn2, htok2, hl2⟩ := hsrc1.step
  have hk2 : t2.nextTok.kind = .newline := by rw [htok2]
  obtain ⟨t', h3, hl3⟩ := fieldsFmt_ok (fuel + 1) ind fs fuel
    ((if ro then kwReadonly ++ [32] else []) ++ kwStruct ++ [32] ++ name ++ [32, 123, 10]) r t2 (by omega) (by omega) hl2.src
  refine ⟨t', ?_, hl3⟩
  simp only [List.length_cons, List.length_nil, List.foldl_cons, List.foldl_nil] at h1
  simp only [formatStruct, htok, h1]
  rw [formatStruct.loop]
  simp only [hn2, hk2]
  rw [← h3, sq_readonly]
  congr 1
  cases ro <;> simp

/-! ### message bodies -/

/-- `// doc` lines in a message body: one iteration each -/
theorem msg_doc_fmt (fuel : Nat) (ind : List Byte) : ∀ (cs : List Str) (f : Nat) (acc : List Byte) (r : List Lexeme)
    (t : TR), Src (toks (docLex ind cs r)) t →
    ∃ t', Src (toks r) t' ∧ formatMessage.loop fuel ind (f + cs.length) t acc =
      formatMessage.loop fuel ind f t' (acc ++ cmtText ind cs)
  | [], f, acc, r, t, h => ⟨t, h, by simp [cmtText]⟩
  | c :: cs, f, acc, r, t, h => by
    simp only [docLex] at h
    obtain ⟨t1, hn, htok, hl⟩ := Src.step (tok := tCmt c) h
    have hk1 : t1.nextTok.kind = .lineComment := by rw [htok]
    obtain ⟨t', hsrc, he⟩ := msg_doc_fmt fuel ind cs f (acc ++ ind ++ (tCmt c).concrete) r t1 hl.src
    refine ⟨t', hsrc, ?_⟩
    rw [show f + (c :: cs).length = (f + cs.length) + 1 by simp; omega, formatMessage.loop]
    simp only [hn, hk1, htok, he]
    simp [cmtText]

theorem msgFmt_ok (fuel : Nat) (ind : List Byte) : ∀ (gs : List CMsgField) (f : Nat) (acc : List Byte)
    (r : List Lexeme) (t : TR), (∀ g ∈ gs, g.trail = none) → msgFieldsLen gs ≤ f → msgFieldsLen gs ≤ fuel →
    Src (toks (msgFieldsLex ind gs r)) t →
    ∃ t', formatMessage.loop fuel ind f t acc = some (acc ++ msgFieldsText ind gs, t') ∧
      Lex (toks (⟨[], tNl⟩ :: r)) t'
  | [], f, acc, r, t, _, hf, _, h => by
    obtain ⟨f, rfl⟩ : ∃ g, f = g + 1 := ⟨f - 1, by simp [msgFieldsLen] at hf; omega⟩
    obtain ⟨t1, hn, htok, hl⟩ := Src.step (tok := tClose) (l := toks (⟨[], tNl⟩ :: r)) h
    refine ⟨t1, ?_, hl⟩
    rw [formatMessage.loop]
    simp only [hn, htok, msgFieldsText]
    simp
  | g :: gs, f, acc, r, t, htr, hf, hfu, h => by
    have htr0 : g.trail = none := htr g (List.mem_cons_self)
    have htr' : ∀ x ∈ gs, x.trail = none := fun x hx => htr x (List.mem_cons_of_mem _ hx)
    have hty : tyFuel g.ty ≤ fuel := by
      have := tyFuel_le g.ty
      simp only [msgFieldsLen, msgFieldLen] at hfu; omega
    simp only [msgFieldsLex, msgFieldLex, htr0, trailLex] at h
    -- the field line itself: two iterations
    have hfield : ∀ (f : Nat) (acc : List Byte) (t : TR),
        Src (toks (⟨ind, tNum g.idx⟩ :: ⟨[32], tArrow⟩ ::
          typeLex g.ty [32] (⟨[32], tId g.name⟩ :: ⟨[], tSemi⟩ :: ⟨[], tNl⟩ :: msgFieldsLex ind gs r))) t →
        ∃ t', Lex (toks (msgFieldsLex ind gs r)) t' ∧ formatMessage.loop fuel ind (f + 2) t acc =
          formatMessage.loop fuel ind f t'
            (acc ++ ind ++ g.idx ++ [32, 45, 62, 32] ++ typeText g.ty ++ [32] ++ g.name ++ [59, 10]) := by
      intro f acc t h
      obtain ⟨t1, hn1, htok1, hl1⟩ := Src.step (tok := tNum g.idx) h
      obtain ⟨t2, h2, hl2, _⟩ := nextConc_ok (tok := tArrow) hl1.src
      obtain ⟨t3, t4, hn3, _, h4, hsrc4⟩ := formatType_okX g.ty fuel [32] ⟨[32], tId g.name⟩ _ t2 hty
        (by intro h; cases h) hl2.src
      obtain ⟨t5, h5, hl5, _⟩ := nextConc_ok (tok := tId g.name) hsrc4
      obtain ⟨t6, hn6, _, hl6⟩ := hl5.src.step
      obtain ⟨t7, hn7, htok7, hl7⟩ := hl6.src.step
      have hk1 : t1.nextTok.kind = .intLit := by rw [htok1]
      have hk7 : t7.nextTok.kind = .newline := by rw [htok7]
      refine ⟨t7, hl7, ?_⟩
      have hsq : sq ";\n" = [59, 10] := by decide
      rw [show f + 2 = (f + 1) + 1 from rfl, formatMessage.loop]
      simp only [hn1, hk1, h2, hn3, h4, h5, hn6, htok1]
      rw [formatMessage.loop]
      simp only [hn7, hk7, hsq]
      simp
    obtain ⟨f, rfl⟩ : ∃ k, f = k + g.doc.length :=
      ⟨f - g.doc.length, by simp only [msgFieldsLen, msgFieldLen] at hf; omega⟩
    obtain ⟨tz, hsrcz, hez⟩ := msg_doc_fmt fuel ind g.doc f acc _ t h
    rw [hez]
    cases hd : g.dep with
    | none =>
      rw [hd] at hsrcz
      simp only [depLex] at hsrcz
      obtain ⟨f, rfl⟩ : ∃ k, f = k + 2 := ⟨f - 2, by simp only [msgFieldsLen, msgFieldLen] at hf; omega⟩
      obtain ⟨t1, hl1, he1⟩ := hfield f (acc ++ cmtText ind g.doc) tz hsrcz
      obtain ⟨t', h2, hl2⟩ := msgFmt_ok fuel ind gs f _ r t1 htr'
        (by simp only [msgFieldsLen, msgFieldLen] at hf; omega) (by simp only [msgFieldsLen] at hfu; omega) hl1.src
      refine ⟨t', ?_, hl2⟩
      rw [he1, h2]
      simp [msgFieldsText, hd, depText, htr0, trailText]
    | some m =>
      rw [hd] at hsrcz
      simp only [depLex] at hsrcz
      obtain ⟨f, rfl⟩ : ∃ k, f = k + 4 := ⟨f - 4, by simp only [msgFieldsLen, msgFieldLen, hd, depLen] at hf; omega⟩
      obtain ⟨t0, hn0, htok0, hl0⟩ := Src.step (tok := tLB) hsrcz
      obtain ⟨t1, h1, hl1⟩ := fmtAttr_dep ind m htok0 hl0.src
      obtain ⟨t2, hn2, htok2, hl2⟩ := hl1.src.step
      obtain ⟨t3, hl3, he3⟩ := hfield f (acc ++ cmtText ind g.doc ++ depText ind (some m)) t2 hl2.src
      obtain ⟨t', h4, hl4⟩ := msgFmt_ok fuel ind gs f _ r t3 htr'
        (by simp only [msgFieldsLen, msgFieldLen, hd, depLen] at hf; omega) (by simp only [msgFieldsLen] at hfu; omega)
        hl3.src
      refine ⟨t', ?_, hl4⟩
      have hk0 : t0.nextTok.kind = .openSquare := by rw [htok0]
      have hk2 : t2.nextTok.kind = .newline := by rw [htok2]
      rw [show f + 4 = (f + 3) + 1 from rfl, formatMessage.loop]
      simp only [hn0, hk0, h1]
      rw [show f + 3 = (f + 2) + 1 from rfl, formatMessage.loop]
      simp only [hn2, hk2]
      rw [he3, h4]
      simp [msgFieldsText, hd, htr0, trailText]

/-- formatMessage (the `message` keyword has just been read) -/
theorem formatMessage_ok (fuel : Nat) (ind : List Byte) (name : Str) (gs : List CMsgField)
    (htr : ∀ g ∈ gs, g.trail = none) (hfu : msgFieldsLen gs + 1 ≤ fuel) (r : List Lexeme) (t : TR) (htok : t.nextTok = ⟨.kMessage, kwMessage⟩)
    (h : Src (tId name :: tOpen :: tNl :: toks (msgFieldsLex ind gs r)) t) :
    ∃ t', formatMessage fuel t ind = some (kwMessage ++ [32] ++ name ++ [32, 123, 10] ++ msgFieldsText ind gs, t') ∧
      Lex (toks (⟨[], tNl⟩ :: r)) t' := by
  obtain ⟨fuel, rfl⟩ : ∃ g, fuel = g + 1 := ⟨fuel - 1, by omega⟩
  obtain ⟨t1, h1, hsrc1, _⟩ := takeToks_ok [32] [tId name, tOpen] _ t kwMessage h
  obtain ⟨t2, hn2, htok2, hl2⟩ := hsrc1.step
  have hk2 : t2.nextTok.kind = .newline := by rw [htok2]
  obtain ⟨t', h3, hl3⟩ := msgFmt_ok (fuel + 1) ind gs fuel (kwMessage ++ [32] ++ name ++ [32, 123, 10]) r t2
    htr (by omega) (by omega) hl2.src
  refine ⟨t', ?_, hl3⟩
  simp only [List.length_cons, List.length_nil, List.foldl_cons, List.foldl_nil] at h1
  simp only [formatMessage, htok, h1]
  rw [formatMessage.loop]
  simp only [hn2, hk2]
  rw [← h3]
  congr 1
  simp

/-! ### enums -/

/-- the value loop of `formatEnum` over tokens that are not semicolons: one blank before every token except
    directly after `(` and directly before `)` -/
theorem optValue_toks : ∀ (ts : List Token), (∀ tk ∈ ts, (tk.kind == TK.semicolon) = false) →
    ∀ (prev : TK) (acc : List Byte) (f : Nat) (l : List Token) (t : TR), ts.length < f → Src (ts ++ tSemi :: l) t →
    ∃ t', formatEnum.optValue f t prev acc = (acc ++ spText prev ts, t') ∧ Lex l t'
  | [], _, prev, acc, f, l, t, hf, h => by
    obtain ⟨f, rfl⟩ : ∃ g, f = g + 1 := ⟨f - 1, by simp at hf; omega⟩
    obtain ⟨t1, hn, htok, hl⟩ := Src.step (tok := tSemi) h
    refine ⟨t1, ?_, hl⟩
    rw [formatEnum.optValue]
    simp only [hn, htok, beq_self_eq_true, if_true, spText, List.append_nil]
  | tk :: ts, hts, prev, acc, f, l, t, hf, h => by
    obtain ⟨f, rfl⟩ : ∃ g, f = g + 1 := ⟨f - 1, by simp at hf; omega⟩
    obtain ⟨t1, hn, htok, hl⟩ := Src.step (tok := tk) (l := ts ++ tSemi :: l) h
    obtain ⟨t', h2, hl2⟩ := optValue_toks ts (fun x hx => hts x (List.mem_cons_of_mem _ hx)) tk.kind
      (acc ++ (if prev != .openParen && tk.kind != .closeParen then [32] else []) ++ tk.concrete) f l t1
      (by simp at hf; omega) hl.src
    refine ⟨t', ?_, hl2⟩
    have hk : (tk.kind == TK.semicolon) = false := hts tk (List.mem_cons_self)
    rw [formatEnum.optValue]
    simp only [hn, htok, hk, Bool.false_eq_true, if_false, h2, spText]
    simp

/-- `// doc` lines in an enum body: one iteration each -/
theorem enum_doc_fmt (fuel : Nat) : ∀ (cs : List Str) (f : Nat) (acc : List Byte) (r : List Lexeme)
    (t : TR), Src (toks (docLex [9] cs r)) t →
    ∃ t', Src (toks r) t' ∧ formatEnum.loop fuel (f + cs.length) t acc =
      formatEnum.loop fuel f t' (acc ++ cmtText [9] cs)
  | [], f, acc, r, t, h => ⟨t, h, by simp [cmtText]⟩
  | c :: cs, f, acc, r, t, h => by
    simp only [docLex] at h
    obtain ⟨t1, hn, htok, hl⟩ := Src.step (tok := tCmt c) h
    have hk1 : t1.nextTok.kind = .lineComment := by rw [htok]
    obtain ⟨t', hsrc, he⟩ := enum_doc_fmt fuel cs f (acc ++ [9] ++ (tCmt c).concrete) r t1 hl.src
    refine ⟨t', hsrc, ?_⟩
    rw [show f + (c :: cs).length = (f + cs.length) + 1 by simp; omega, formatEnum.loop]
    simp only [hn, hk1, htok, he]
    simp [cmtText]

theorem toks_spLex : ∀ (ts : List Token) (prev : TK) (r' : List Lexeme), toks (spLex prev ts r') = ts ++ toks r'
  | [], _, _ => rfl
  | tk :: ts, prev, r' => by simp [spLex, toks_spLex ts]

theorem enumFmt_ok (fuel : Nat) : ∀ (os : List CEnumOpt) (f : Nat) (acc : List Byte)
    (r : List Lexeme) (t : TR), enumOptsLen os ≤ f → enumOptsLen os ≤ fuel → Src (toks (enumOptsLex os r)) t →
    ∃ t', formatEnum.loop fuel f t acc = some (acc ++ enumOptsText os, t') ∧ Lex (toks (⟨[], tNl⟩ :: r)) t'
  | [], f, acc, r, t, hf, _, h => by
    obtain ⟨f, rfl⟩ : ∃ g, f = g + 1 := ⟨f - 1, by simp [enumOptsLen] at hf; omega⟩
    obtain ⟨t1, hn, htok, hl⟩ := Src.step (tok := tClose) (l := toks (⟨[], tNl⟩ :: r)) h
    refine ⟨t1, ?_, hl⟩
    rw [formatEnum.loop]
    simp only [hn, htok, enumOptsText]
    simp
  | o :: os, f, acc, r, t, hf, hfu, h => by
    simp only [enumOptsLex, enumOptLex] at h
    have hopt : ∀ (f : Nat) (acc : List Byte) (t : TR),
        Src (toks (⟨[9], tId o.name⟩ :: spLex .ident (tEq :: o.val.map ETok.tok)
          (⟨[], tSemi⟩ :: ⟨[], tNl⟩ :: enumOptsLex os r))) t →
        ∃ t', Lex (toks (enumOptsLex os r)) t' ∧ formatEnum.loop fuel (f + 2) t acc =
          formatEnum.loop fuel f t'
            (acc ++ [9] ++ o.name ++ spText .ident (tEq :: o.val.map ETok.tok) ++ [59, 10]) := by
      intro f acc t h
      obtain ⟨t1, hn1, htok1, hl1⟩ := Src.step (tok := tId o.name) h
      have hl1' : Lex ((tEq :: o.val.map ETok.tok) ++ tSemi :: tNl :: toks (enumOptsLex os r)) t1 := by
        have := hl1
        change Lex (toks (spLex .ident (tEq :: o.val.map ETok.tok) (⟨[], tSemi⟩ :: ⟨[], tNl⟩ :: enumOptsLex os r))) t1
          at this
        rw [toks_spLex] at this
        simpa using this
      obtain ⟨t2, h2, hl2⟩ := optValue_toks (tEq :: o.val.map ETok.tok)
        (by intro tk htk
            rcases List.mem_cons.1 htk with rfl | htk
            · rfl
            · obtain ⟨e, _, rfl⟩ := List.mem_map.1 htk; exact etok_not_semi e)
        .ident ([9] ++ o.name) fuel _ t1 (by simp only [enumOptsLen, enumOptLen] at hfu; simp; omega) hl1'.src
      obtain ⟨t3, hn3, htok3, hl3⟩ := hl2.src.step
      have hk1 : t1.nextTok.kind = .ident := by rw [htok1]
      have hk3 : t3.nextTok.kind = .newline := by rw [htok3]
      refine ⟨t3, hl3, ?_⟩
      have hsq : sq ";\n" = [59, 10] := by decide
      rw [show f + 2 = (f + 1) + 1 from rfl, formatEnum.loop]
      simp only [hn1, hk1, htok1, h2]
      rw [formatEnum.loop]
      simp only [hn3, hk3, hsq]
      simp
    obtain ⟨f, rfl⟩ : ∃ k, f = k + o.doc.length := ⟨f - o.doc.length, by simp only [enumOptsLen, enumOptLen] at hf; omega⟩
    obtain ⟨tz, hsrcz, hez⟩ := enum_doc_fmt fuel o.doc f acc _ t h
    rw [hez]
    cases hd : o.dep with
    | none =>
      rw [hd] at hsrcz
      simp only [depLex] at hsrcz
      obtain ⟨f, rfl⟩ : ∃ k, f = k + 2 := ⟨f - 2, by simp only [enumOptsLen, enumOptLen] at hf; omega⟩
      obtain ⟨t1, hl1, he1⟩ := hopt f (acc ++ cmtText [9] o.doc) tz hsrcz
      obtain ⟨t', h2, hl2⟩ := enumFmt_ok fuel os f _ r t1 (by simp only [enumOptsLen, enumOptLen] at hf; omega)
        (by simp only [enumOptsLen] at hfu; omega) hl1.src
      refine ⟨t', ?_, hl2⟩
      rw [he1, h2]
      simp [enumOptsText, hd, depText]
    | some m =>
      rw [hd] at hsrcz
      simp only [depLex] at hsrcz
      obtain ⟨f, rfl⟩ : ∃ k, f = k + 4 := ⟨f - 4, by simp only [enumOptsLen, enumOptLen, hd, depLen] at hf; omega⟩
      obtain ⟨t0, hn0, htok0, hl0⟩ := Src.step (tok := tLB) hsrcz
      obtain ⟨t1, h1, hl1⟩ := fmtAttr_dep [9] m htok0 hl0.src
      obtain ⟨t2, hn2, htok2, hl2⟩ := hl1.src.step
      obtain ⟨t3, hl3, he3⟩ := hopt f (acc ++ cmtText [9] o.doc ++ depText [9] (some m)) t2 hl2.src
      obtain ⟨t', h4, hl4⟩ := enumFmt_ok fuel os f _ r t3
        (by simp only [enumOptsLen, enumOptLen, hd, depLen] at hf; omega) (by simp only [enumOptsLen] at hfu; omega) hl3.src
      refine ⟨t', ?_, hl4⟩
      have hk0 : t0.nextTok.kind = .openSquare := by rw [htok0]
      have hk2 : t2.nextTok.kind = .newline := by rw [htok2]
      rw [show f + 4 = (f + 3) + 1 from rfl, formatEnum.loop]
      simp only [hn0, hk0, h1]
      rw [show f + 3 = (f + 2) + 1 from rfl, formatEnum.loop]
      simp only [hn2, hk2]
      rw [he3, h4]
      simp [enumOptsText, hd]

/-- formatEnum (the `enum` keyword has just been read) -/
theorem formatEnum_ok (fuel : Nat) (name : Str) (base : Option Str) (os : List CEnumOpt)
    (hfu : enumOptsLen os + 4 ≤ fuel) (r : List Lexeme) (t : TR) (htok : t.nextTok = ⟨.kEnum, kwEnum⟩)
    (h : Src (toks (⟨[32], tId name⟩ :: baseLex base (⟨[32], tOpen⟩ :: ⟨[], tNl⟩ :: enumOptsLex os r))) t) :
    ∃ t', formatEnum fuel t = some (kwEnum ++ [32] ++ name ++ baseText base ++ [32, 123, 10] ++ enumOptsText os, t') ∧
      Lex (toks (⟨[], tNl⟩ :: r)) t' := by
  obtain ⟨fuel, rfl⟩ : ∃ g, fuel = g + 4 := ⟨fuel - 4, by omega⟩
  -- the header, up to and including `{`
  have hhead : ∃ t1, Lex (toks (⟨[], tNl⟩ :: enumOptsLex os r)) t1 ∧
      (if ((takeToks [32] 2 t t.nextTok.concrete).snd.nextTok.kind == TK.colon) = true then
          takeToks [32] 2 (takeToks [32] 2 t t.nextTok.concrete).snd (takeToks [32] 2 t t.nextTok.concrete).fst
        else ((takeToks [32] 2 t t.nextTok.concrete).fst, (takeToks [32] 2 t t.nextTok.concrete).snd)) =
        (kwEnum ++ [32] ++ name ++ baseText base ++ [32, 123], t1) := by
    cases base with
    | none =>
      simp only [baseLex] at h
      obtain ⟨t1, h1, _, hlast⟩ := takeToks_ok [32] [tId name, tOpen] _ t kwEnum h
      obtain ⟨htok1, hl1⟩ := hlast tOpen rfl
      refine ⟨t1, hl1, ?_⟩
      have hk1 : (t1.nextTok.kind == TK.colon) = false := by rw [htok1]; rfl
      simp only [List.length_cons, List.length_nil, List.foldl_cons, List.foldl_nil] at h1
      simp only [htok, h1, hk1, Bool.false_eq_true, if_false, baseText]
      simp
    | some b =>
      simp only [baseLex] at h
      obtain ⟨t1, h1, _, hlast⟩ := takeToks_ok [32] [tId name, tColon] _ t kwEnum h
      obtain ⟨htok1, hl1⟩ := hlast tColon rfl
      obtain ⟨t2, h2, _, hlast2⟩ := takeToks_ok [32] [tId b, tOpen] _ t1 (kwEnum ++ [32] ++ name ++ [32] ++ [58]) hl1.src
      obtain ⟨_, hl2⟩ := hlast2 tOpen rfl
      refine ⟨t2, hl2, ?_⟩
      have hk1 : (t1.nextTok.kind == TK.colon) = true := by rw [htok1]; rfl
      simp only [List.length_cons, List.length_nil, List.foldl_cons, List.foldl_nil] at h1 h2
      simp only [htok, h1, hk1, if_true, h2, baseText]
      simp
  obtain ⟨t1, hl1, hhd⟩ := hhead
  obtain ⟨t2, hn2, htok2, hl2⟩ := hl1.src.step
  have hk2 : t2.nextTok.kind = .newline := by rw [htok2]
  obtain ⟨t', h3, hl3⟩ := enumFmt_ok (fuel + 4) os (fuel + 3) (kwEnum ++ [32] ++ name ++ baseText base ++ [32, 123] ++ [10]) r t2
    (by omega) (by omega) hl2.src
  refine ⟨t', ?_, hl3⟩
  simp only [formatEnum]
  rw [hhd]
  rw [show fuel + 4 = (fuel + 3) + 1 from rfl, formatEnum.loop]
  simp only [hn2, hk2]
  rw [h3]
  simp

/-! ### unions -/

/-- `// doc` lines in a union body: one iteration each -/
theorem union_doc_fmt (fuel : Nat) : ∀ (cs : List Str) (f : Nat) (acc : List Byte) (r : List Lexeme)
    (t : TR), Src (toks (docLex [9] cs r)) t →
    ∃ t', Src (toks r) t' ∧ formatUnion.loop fuel [9] (f + cs.length) t acc =
      formatUnion.loop fuel [9] f t' (acc ++ cmtText [9] cs)
  | [], f, acc, r, t, h => ⟨t, h, by simp [cmtText]⟩
  | c :: cs, f, acc, r, t, h => by
    simp only [docLex] at h
    obtain ⟨t1, hn, htok, hl⟩ := Src.step (tok := tCmt c) h
    have hk1 : t1.nextTok.kind = .lineComment := by rw [htok]
    obtain ⟨t', hsrc, he⟩ := union_doc_fmt fuel cs f (acc ++ [9] ++ (tCmt c).concrete) r t1 hl.src
    refine ⟨t', hsrc, ?_⟩
    rw [show f + (c :: cs).length = (f + cs.length) + 1 by simp; omega, formatUnion.loop]
    simp only [hn, hk1, htok, he]
    simp [cmtText]

theorem membersFmt_ok (fuel : Nat) : ∀ (ms : List CUMember) (f : Nat) (acc : List Byte)
    (r : List Lexeme) (t : TR),
    (∀ m ∈ ms, (match m with | .message _ _ _ _ fields => ∀ g ∈ fields, g.trail = none | _ => True)) →
    membersLen ms ≤ f → membersLen ms + 1 ≤ fuel → Src (toks (membersLex ms r)) t →
    ∃ t', formatUnion.loop fuel [9] f t acc = some (acc ++ membersText ms, t') ∧ Lex (toks (⟨[], tNl⟩ :: r)) t'
  | [], f, acc, r, t, _, hf, _, h => by
    obtain ⟨f, rfl⟩ : ∃ g, f = g + 1 := ⟨f - 1, by simp [membersLen] at hf; omega⟩
    obtain ⟨t1, hn, htok, hl⟩ := Src.step (tok := tClose) (l := toks (⟨[], tNl⟩ :: r)) h
    refine ⟨t1, ?_, hl⟩
    rw [formatUnion.loop]
    simp only [hn, htok, membersText]
    simp
  | m :: ms, f, acc, r, t, htr, hf, hfu, h => by
    have htr0 := htr m (List.mem_cons_self)
    have htr' := fun x hx => htr x (List.mem_cons_of_mem _ hx)
    have hml := memberLen_ge m
    simp only [membersLex, memberLex_eq] at h
    -- the member itself and the line break after its `}`: two iterations
    have hbody : ∀ (f : Nat) (acc : List Byte) (t : TR), Src (toks (memberBodyLex m (membersLex ms r))) t →
        ∃ t', Lex (toks (membersLex ms r)) t' ∧ formatUnion.loop fuel [9] (f + 2) t acc =
          formatUnion.loop fuel [9] f t' (acc ++ (match m with
            | .struct _ _ idx name fields =>
              [9] ++ idx ++ [32, 45, 62, 32] ++ kwStruct ++ [32] ++ name ++ [32, 123, 10] ++ fieldsText [9, 9] fields
            | .message _ _ idx name fields =>
              [9] ++ idx ++ [32, 45, 62, 32] ++ kwMessage ++ [32] ++ name ++ [32, 123, 10] ++
                msgFieldsText [9, 9] fields)) := by
      intro f acc t h
      cases m with
      | struct doc dep idx name fs =>
        simp only [memberBodyLex, structLex] at h
        obtain ⟨t1, hn1, htok1, hl1⟩ := Src.step (tok := tNum idx) h
        obtain ⟨t2, h2, hl2, _⟩ := nextConc_ok (tok := tArrow) hl1.src
        obtain ⟨t3, hn3, htok3, hl3⟩ := Src.step (tok := ⟨.kStruct, kwStruct⟩) hl2.src
        obtain ⟨t4, h4, hl4⟩ := formatStructX_ok fuel false [9, 9] name fs
          (by simp only [membersLen, memberLen] at hfu; omega) _ t3 htok3 hl3.src
        obtain ⟨t5, hn5, htok5, hl5⟩ := hl4.src.step
        have hk1 : t1.nextTok.kind = .intLit := by rw [htok1]
        have hk3 : t3.nextTok.kind = .kStruct := by rw [htok3]
        have hk5 : t5.nextTok.kind = .newline := by rw [htok5]
        refine ⟨t5, hl5, ?_⟩
        rw [show f + 2 = (f + 1) + 1 from rfl, formatUnion.loop]
        simp only [hn1, hk1, h2, hn3, hk3, htok1]
        rw [show ([9] ++ [9] : List Byte) = [9, 9] from rfl, h4]
        simp only []
        rw [formatUnion.loop]
        simp only [hn5, hk5]
        congr 1
        simp
      | message doc dep idx name gs =>
        simp only [memberBodyLex, messageLex] at h
        obtain ⟨t1, hn1, htok1, hl1⟩ := Src.step (tok := tNum idx) h
        obtain ⟨t2, h2, hl2, _⟩ := nextConc_ok (tok := tArrow) hl1.src
        obtain ⟨t3, hn3, htok3, hl3⟩ := Src.step (tok := ⟨.kMessage, kwMessage⟩) hl2.src
        obtain ⟨t4, h4, hl4⟩ := formatMessage_ok fuel [9, 9] name gs htr0
          (by simp only [membersLen, memberLen] at hfu; omega) _ t3 htok3 hl3.src
        obtain ⟨t5, hn5, htok5, hl5⟩ := hl4.src.step
        have hk1 : t1.nextTok.kind = .intLit := by rw [htok1]
        have hk3 : t3.nextTok.kind = .kMessage := by rw [htok3]
        have hk5 : t5.nextTok.kind = .newline := by rw [htok5]
        refine ⟨t5, hl5, ?_⟩
        rw [show f + 2 = (f + 1) + 1 from rfl, formatUnion.loop]
        simp only [hn1, hk1, h2, hn3, hk3, htok1]
        rw [show ([9] ++ [9] : List Byte) = [9, 9] from rfl, h4]
        simp only []
        rw [formatUnion.loop]
        simp only [hn5, hk5]
        congr 1
        simp
    obtain ⟨f, rfl⟩ : ∃ k, f = k + m.doc.length := ⟨f - m.doc.length, by simp only [membersLen] at hf; omega⟩
    obtain ⟨tz, hsrcz, hez⟩ := union_doc_fmt fuel m.doc f acc _ t h
    rw [hez]
    cases hd : m.dep with
    | none =>
      rw [hd] at hsrcz
      simp only [depLex] at hsrcz
      obtain ⟨f, rfl⟩ : ∃ k, f = k + 2 := ⟨f - 2, by simp only [membersLen] at hf; omega⟩
      obtain ⟨t1, hl1, he1⟩ := hbody f (acc ++ cmtText [9] m.doc) tz hsrcz
      obtain ⟨t', h2, hl2⟩ := membersFmt_ok fuel ms f _ r t1 htr' (by simp only [membersLen] at hf; omega)
        (by simp only [membersLen] at hfu; omega) hl1.src
      refine ⟨t', ?_, hl2⟩
      rw [he1, h2]
      cases m <;> simp_all [membersText, memberText, CUMember.dep, CUMember.doc, depText]
    | some d =>
      rw [hd] at hsrcz
      simp only [depLex] at hsrcz
      have hdl : depLen m.dep = 7 := by rw [hd]; rfl
      obtain ⟨f, rfl⟩ : ∃ k, f = k + 4 := ⟨f - 4, by simp only [membersLen] at hf; omega⟩
      obtain ⟨t0, hn0, htok0, hl0⟩ := Src.step (tok := tLB) hsrcz
      obtain ⟨t1, h1, hl1⟩ := fmtAttr_dep [9] d htok0 hl0.src
      obtain ⟨t2, hn2, htok2, hl2⟩ := hl1.src.step
      obtain ⟨t3, hl3, he3⟩ := hbody f (acc ++ cmtText [9] m.doc ++ depText [9] (some d)) t2 hl2.src
      obtain ⟨t', h4, hl4⟩ := membersFmt_ok fuel ms f _ r t3 htr' (by simp only [membersLen] at hf; omega)
        (by simp only [membersLen] at hfu; omega) hl3.src
      refine ⟨t', ?_, hl4⟩
      have hk0 : t0.nextTok.kind = .openSquare := by rw [htok0]
      have hk2 : t2.nextTok.kind = .newline := by rw [htok2]
      rw [show f + 4 = (f + 3) + 1 from rfl, formatUnion.loop]
      simp only [hn0, hk0, h1]
      rw [show f + 3 = (f + 2) + 1 from rfl, formatUnion.loop]
      simp only [hn2, hk2]
      rw [he3, h4]
      cases m <;> simp_all [membersText, memberText, CUMember.dep, CUMember.doc]

/-- formatUnion (the `union` keyword has just been read) -/
theorem formatUnion_ok (fuel : Nat) (name : Str) (ms : List CUMember)
    (htr : ∀ m ∈ ms, (match m with | .message _ _ _ _ fields => ∀ g ∈ fields, g.trail = none | _ => True))
    (hfu : membersLen ms + 2 ≤ fuel) (r : List Lexeme) (t : TR) (htok : t.nextTok = ⟨.kUnion, kwUnion⟩)
    (h : Src (tId name :: tOpen :: tNl :: toks (membersLex ms r)) t) :
    ∃ t', formatUnion fuel t [9] = some (kwUnion ++ [32] ++ name ++ [32, 123, 10] ++ membersText ms, t') ∧
      Lex (toks (⟨[], tNl⟩ :: r)) t' := by
  obtain ⟨fuel, rfl⟩ : ∃ g, fuel = g + 1 := ⟨fuel - 1, by omega⟩
  obtain ⟨t1, h1, hsrc1, _⟩ := takeToks_ok [32] [tId name, tOpen] _ t kwUnion h
  obtain ⟨t2, hn2, htok2, hl2⟩ := hsrc1.step
  have hk2 : t2.nextTok.kind = .newline := by rw [htok2]
  obtain ⟨t', h3, hl3⟩ := membersFmt_ok (fuel + 1) ms fuel (kwUnion ++ [32] ++ name ++ [32, 123, 10]) r t2
    htr (by omega) (by omega) hl2.src
  refine ⟨t', ?_, hl3⟩
  simp only [List.length_cons, List.length_nil, List.foldl_cons, List.foldl_nil] at h1
  simp only [formatUnion, htok, h1]
  rw [formatUnion.loop]
  simp only [hn2, hk2]
  rw [← h3]
  congr 1
  simp

theorem takeToks_op (o : OpLit) {l : List Token} {t : TR} (htok : t.nextTok = tLB)
    (h : Src (⟨.kOpCode, kwOpcode⟩ :: tLP :: opLitTok o :: tRP :: tRB :: l) t) :
    ∃ t1 t', takeToks [] 1 t [91] = ([91] ++ kwOpcode, t1) ∧ t1.nextTok.kind = .kOpCode ∧
      takeToks [] 4 t1 ([91] ++ kwOpcode) = ([91] ++ kwOpcode ++ [40] ++ (opLitTok o).concrete ++ [41, 93], t') ∧
      Lex l t' := by
  obtain ⟨t1, h1, hsrc1, hlast1⟩ := takeToks_ok [] [⟨.kOpCode, kwOpcode⟩] _ t [91] h
  obtain ⟨t', h2, _, hlast2⟩ := takeToks_ok [] [tLP, opLitTok o, tRP, tRB] l t1 ([91] ++ kwOpcode) hsrc1
  refine ⟨t1, t', ?_, ?_, ?_, (hlast2 tRB rfl).2⟩
  · simpa using h1
  · rw [(hlast1 ⟨.kOpCode, kwOpcode⟩ rfl).1]
  · simp only [List.length_cons, List.length_nil, List.foldl_cons, List.foldl_nil, List.append_nil] at h2
    rw [h2]; simp

/-- the `[opcode(…)]` line and its line break: two iterations -/
theorem fmt_op (fuel g : Nat) (out : List Byte) (nl : Bool) (o : OpLit) {r : List Lexeme} {t : TR}
    (h : Src (toks (opLex (some o) r)) t) :
    ∃ t', Lex (toks r) t' ∧ formatLoop fuel (g + 2) t out false nl =
      formatLoop fuel g t' (out ++ (if nl then [10] else []) ++ opText (some o)) false false := by
  simp only [opLex] at h
  obtain ⟨t0, hn0, htok0, hl0⟩ := Src.step (tok := tLB) h
  obtain ⟨t1, t2, h1, hk1, h2, hl2⟩ := takeToks_op o htok0 hl0.src
  obtain ⟨t3, hn3, htok3, hl3⟩ := hl2.src.step
  refine ⟨t3, hl3, ?_⟩
  have hk3 : t3.nextTok.kind = .newline := by rw [htok3]
  have hne : (TK.kOpCode == TK.kFlags) = false := by decide
  rw [show g + 2 = (g + 1) + 1 from rfl, formatLoop]
  simp only [hn0, htok0, h1, hk1, hne, Bool.false_eq_true, if_false, h2]
  rw [formatLoop]
  simp only [hn3, hk3]
  congr 1
  simp [opText]

/-- the `[flags]` line and its line break: two iterations -/
theorem fmt_flags (fuel g : Nat) (out : List Byte) (nl : Bool) {r : List Lexeme} {t : TR}
    (h : Src (toks (flagsLex true r)) t) :
    ∃ t', Lex (toks r) t' ∧ formatLoop fuel (g + 2) t out false nl =
      formatLoop fuel g t' (out ++ (if nl then [10] else []) ++ flagsText true) false false := by
  simp only [flagsLex] at h
  obtain ⟨t0, hn0, htok0, hl0⟩ := Src.step (tok := tLB) h
  obtain ⟨t1, h1, hsrc1, hlast1⟩ := takeToks_ok [] [⟨.kFlags, kwFlags⟩] _ t0 [91] hl0.src
  obtain ⟨t2, h2, _, hlast2⟩ := takeToks_ok [] [tRB] _ t1 ([91] ++ kwFlags) hsrc1
  obtain ⟨t3, hn3, htok3, hl3⟩ := (hlast2 tRB rfl).2.src.step
  refine ⟨t3, hl3, ?_⟩
  have hk1 : (t1.nextTok.kind == TK.kFlags) = true := by rw [(hlast1 ⟨.kFlags, kwFlags⟩ rfl).1]; rfl
  have hk3 : t3.nextTok.kind = .newline := by rw [htok3]
  simp only [List.length_cons, List.length_nil, List.foldl_cons, List.foldl_nil, List.append_nil, Nat.zero_add] at h1 h2
  rw [show g + 2 = (g + 1) + 1 from rfl, formatLoop]
  simp only [hn0, htok0, h1, hk1, if_true, h2]
  rw [formatLoop]
  simp only [hn3, hk3]
  congr 1
  simp [flagsText]

/-- the number of top-level iterations of the formatter a definition takes -/
def defIterF : CDef → Nat
  | .struct op ro _ _ => (if op.isSome then 2 else 0) + (if ro then 1 else 0) + 2
  | .message op _ _ => (if op.isSome then 2 else 0) + 2
  | .enum fl _ _ _ => (if fl then 2 else 0) + 2
  | .union op _ _ => (if op.isSome then 2 else 0) + 2
  | .const .. => 1
  | .import_ _ => 2

theorem defIterF_le (d : CDef) : defIterF d ≤ defLen d ∧ 1 ≤ defIterF d := by
  cases d with
  | struct op ro name fs => cases op <;> cases ro <;> simp [defIterF, defLen, opLen] <;> omega
  | message op name gs => cases op <;> simp [defIterF, defLen, opLen] <;> omega
  | enum fl name base os => cases fl <;> simp [defIterF, defLen, flagsLen] <;> omega
  | union op name ms => cases op <;> simp [defIterF, defLen, opLen] <;> omega
  | const name v => simp [defIterF, defLen]
  | import_ path => simp [defIterF, defLen]

theorem sq_semi' : sq ";" = [59] := by decide

theorem fmt_def (fuel f : Nat) (out : List Byte) (nl : Bool) (d : CDef) (hmv : d.noMovedComments) (hfu : defLen d ≤ fuel)
    {r : List Lexeme}
    {t : TR} (h : Src (toks (defLex d r)) t) :
    ∃ t', Lex (toks r) t' ∧ formatLoop fuel (f + defIterF d) t out false nl =
      formatLoop fuel f t' (out ++ (if nl then [10] else []) ++ defText d) false (nlAfter d) := by
  cases d with
  | struct op ro name fs =>
    have hfs : fieldsLen fs + 1 ≤ fuel := by simp only [defLen] at hfu; omega
    simp only [defLex] at h
    -- `struct …` (after the attribute line and `readonly`), and the line break after `}`
    have hstruct : ∀ (out : List Byte) (nl ro : Bool) (s : List Byte) (t : TR),
        Src (toks (structLex s [9] name fs r)) t →
        ∃ t', Lex (toks r) t' ∧ formatLoop fuel (f + 2) t out ro nl =
          formatLoop fuel f t' (out ++ (if nl then [10] else []) ++ ((if ro then kwReadonly ++ [32] else []) ++
            kwStruct ++ [32] ++ name ++ [32, 123, 10] ++ fieldsText [9] fs)) false true := by
      intro out nl ro s t h
      simp only [structLex] at h
      obtain ⟨t1, hn, htok, hl⟩ := Src.step (tok := ⟨.kStruct, kwStruct⟩) h
      obtain ⟨t2, h2, hl2⟩ := formatStructX_ok fuel ro [9] name fs hfs r t1 htok hl.src
      obtain ⟨t3, hl3, h3⟩ := fmt_nl fuel f (out ++ (if nl then [10] else []) ++ ((if ro then kwReadonly ++ [32] else []) ++
            kwStruct ++ [32] ++ name ++ [32, 123, 10] ++ fieldsText [9] fs)) true hl2.src
      refine ⟨t3, hl3, ?_⟩
      have hk : t1.nextTok.kind = .kStruct := by rw [htok]
      rw [← h3, show f + 2 = (f + 1) + 1 from rfl, formatLoop]
      simp only [hn, hk, h2]
    -- `readonly`, if any
    have hro : ∀ (out : List Byte) (nl : Bool) (t : TR),
        Src (toks (if ro then ⟨[], ⟨.kReadOnly, kwReadonly⟩⟩ :: structLex [32] [9] name fs r
                   else structLex [] [9] name fs r)) t →
        ∃ t', Lex (toks r) t' ∧ formatLoop fuel (f + ((if ro then 1 else 0) + 2)) t out false nl =
          formatLoop fuel f t' (out ++ (if nl then [10] else []) ++ ((if ro then kwReadonly ++ [32] else []) ++
            kwStruct ++ [32] ++ name ++ [32, 123, 10] ++ fieldsText [9] fs)) false true := by
      intro out nl t h
      cases ro with
      | false =>
        simp only [Bool.false_eq_true, if_false] at h ⊢
        obtain ⟨t', hl, he⟩ := hstruct out nl false [] t h
        exact ⟨t', hl, by simpa using he⟩
      | true =>
        simp only [if_true] at h ⊢
        obtain ⟨t0, hn0, htok0, hl0⟩ := Src.step (tok := ⟨.kReadOnly, kwReadonly⟩) h
        obtain ⟨t', hl, he⟩ := hstruct out nl true [32] t0 hl0.src
        refine ⟨t', hl, ?_⟩
        have hk0 : t0.nextTok.kind = .kReadOnly := by rw [htok0]
        rw [show f + (1 + 2) = (f + 2) + 1 by omega, formatLoop]
        simp only [hn0, hk0]
        simpa using he
    cases op with
    | none =>
      simp only [opLex] at h
      obtain ⟨t', hl, he⟩ := hro out nl t h
      refine ⟨t', hl, ?_⟩
      simp only [defIterF, Option.isSome_none, Bool.false_eq_true, if_false, Nat.zero_add, nlAfter, defText, opText,
        List.nil_append] at he ⊢
      rw [he]
    | some o =>
      obtain ⟨t3, hl3, he3⟩ := fmt_op fuel (f + ((if ro then 1 else 0) + 2)) out nl o h
      obtain ⟨t', hl, he⟩ := hro (out ++ (if nl then [10] else []) ++ opText (some o)) false t3 hl3.src
      refine ⟨t', hl, ?_⟩
      simp only [defIterF, Option.isSome_some, if_true, nlAfter, defText]
      rw [show f + (2 + (if ro = true then 1 else 0) + 2) = (f + ((if ro = true then 1 else 0) + 2)) + 2 by omega,
        he3, he]
      simp
  | message op name gs =>
    have hfs : msgFieldsLen gs + 1 ≤ fuel := by simp only [defLen] at hfu; omega
    simp only [defLex] at h
    have hmsg : ∀ (out : List Byte) (nl : Bool) (t : TR), Src (toks (messageLex [] [9] name gs r)) t →
        ∃ t', Lex (toks r) t' ∧ formatLoop fuel (f + 2) t out false nl =
          formatLoop fuel f t' (out ++ (if nl then [10] else []) ++
            (kwMessage ++ [32] ++ name ++ [32, 123, 10] ++ msgFieldsText [9] gs)) false true := by
      intro out nl t h
      simp only [messageLex] at h
      obtain ⟨t1, hn, htok, hl⟩ := Src.step (tok := ⟨.kMessage, kwMessage⟩) h
      obtain ⟨t2, h2, hl2⟩ := formatMessage_ok fuel [9] name gs hmv hfs r t1 htok hl.src
      obtain ⟨t3, hl3, h3⟩ := fmt_nl fuel f (out ++ (if nl then [10] else []) ++
            (kwMessage ++ [32] ++ name ++ [32, 123, 10] ++ msgFieldsText [9] gs)) true hl2.src
      refine ⟨t3, hl3, ?_⟩
      have hk : t1.nextTok.kind = .kMessage := by rw [htok]
      rw [← h3, show f + 2 = (f + 1) + 1 from rfl, formatLoop]
      simp only [hn, hk, h2]
    cases op with
    | none =>
      simp only [opLex] at h
      obtain ⟨t', hl, he⟩ := hmsg out nl t h
      refine ⟨t', hl, ?_⟩
      simp only [defIterF, Option.isSome_none, Bool.false_eq_true, if_false, Nat.zero_add, nlAfter, defText, opText,
        List.nil_append] at he ⊢
      rw [he]
    | some o =>
      obtain ⟨t3, hl3, he3⟩ := fmt_op fuel (f + 2) out nl o h
      obtain ⟨t', hl, he⟩ := hmsg (out ++ (if nl then [10] else []) ++ opText (some o)) false t3 hl3.src
      refine ⟨t', hl, ?_⟩
      simp only [defIterF, Option.isSome_some, if_true, nlAfter, defText]
      rw [show f + (2 + 2) = (f + 2) + 2 by omega, he3, he]
      simp
  | enum fl name base os =>
    simp only [defLex] at h
    have henum : ∀ (out : List Byte) (nl : Bool) (t : TR),
        Src (toks (⟨[], ⟨.kEnum, kwEnum⟩⟩ :: ⟨[32], tId name⟩ ::
          baseLex base (⟨[32], tOpen⟩ :: ⟨[], tNl⟩ :: enumOptsLex os r))) t →
        ∃ t', Lex (toks r) t' ∧ formatLoop fuel (f + 2) t out false nl =
          formatLoop fuel f t' (out ++ (if nl then [10] else []) ++
            (kwEnum ++ [32] ++ name ++ baseText base ++ [32, 123, 10] ++ enumOptsText os)) false true := by
      intro out nl t h
      obtain ⟨t1, hn, htok, hl⟩ := Src.step (tok := ⟨.kEnum, kwEnum⟩) h
      obtain ⟨t2, h2, hl2⟩ := formatEnum_ok fuel name base os (by simp only [defLen] at hfu; omega) r t1 htok hl.src
      obtain ⟨t3, hl3, h3⟩ := fmt_nl fuel f (out ++ (if nl then [10] else []) ++
            (kwEnum ++ [32] ++ name ++ baseText base ++ [32, 123, 10] ++ enumOptsText os)) true hl2.src
      refine ⟨t3, hl3, ?_⟩
      have hk : t1.nextTok.kind = .kEnum := by rw [htok]
      rw [← h3, show f + 2 = (f + 1) + 1 from rfl, formatLoop]
      simp only [hn, hk, h2]
    cases fl with
    | false =>
      simp only [flagsLex] at h
      obtain ⟨t', hl, he⟩ := henum out nl t h
      refine ⟨t', hl, ?_⟩
      simp only [defIterF, Bool.false_eq_true, if_false, Nat.zero_add, nlAfter, defText, flagsText, List.nil_append] at he ⊢
      rw [he]
    | true =>
      obtain ⟨t3, hl3, he3⟩ := fmt_flags fuel (f + 2) out nl h
      obtain ⟨t', hl, he⟩ := henum (out ++ (if nl then [10] else []) ++ flagsText true) false t3 hl3.src
      refine ⟨t', hl, ?_⟩
      simp only [defIterF, if_true, nlAfter, defText]
      rw [show f + (2 + 2) = (f + 2) + 2 by omega, he3, he]
      simp
  | union op name ms =>
    have hfs : membersLen ms + 2 ≤ fuel := by simp only [defLen] at hfu; omega
    simp only [defLex] at h
    have hun : ∀ (out : List Byte) (nl : Bool) (t : TR),
        Src (toks (⟨[], ⟨.kUnion, kwUnion⟩⟩ :: ⟨[32], tId name⟩ :: ⟨[32], tOpen⟩ :: ⟨[], tNl⟩ :: membersLex ms r)) t →
        ∃ t', Lex (toks r) t' ∧ formatLoop fuel (f + 2) t out false nl =
          formatLoop fuel f t' (out ++ (if nl then [10] else []) ++
            (kwUnion ++ [32] ++ name ++ [32, 123, 10] ++ membersText ms)) false true := by
      intro out nl t h
      obtain ⟨t1, hn, htok, hl⟩ := Src.step (tok := ⟨.kUnion, kwUnion⟩) h
      obtain ⟨t2, h2, hl2⟩ := formatUnion_ok fuel name ms hmv hfs r t1 htok hl.src
      obtain ⟨t3, hl3, h3⟩ := fmt_nl fuel f (out ++ (if nl then [10] else []) ++
            (kwUnion ++ [32] ++ name ++ [32, 123, 10] ++ membersText ms)) true hl2.src
      refine ⟨t3, hl3, ?_⟩
      have hk : t1.nextTok.kind = .kUnion := by rw [htok]
      rw [← h3, show f + 2 = (f + 1) + 1 from rfl, formatLoop]
      simp only [hn, hk, h2]
    cases op with
    | none =>
      simp only [opLex] at h
      obtain ⟨t', hl, he⟩ := hun out nl t h
      refine ⟨t', hl, ?_⟩
      simp only [defIterF, Option.isSome_none, Bool.false_eq_true, if_false, Nat.zero_add, nlAfter, defText, opText,
        List.nil_append] at he ⊢
      rw [he]
    | some o =>
      obtain ⟨t3, hl3, he3⟩ := fmt_op fuel (f + 2) out nl o h
      obtain ⟨t', hl, he⟩ := hun (out ++ (if nl then [10] else []) ++ opText (some o)) false t3 hl3.src
      refine ⟨t', hl, ?_⟩
      simp only [defIterF, Option.isSome_some, if_true, nlAfter, defText]
      rw [show f + (2 + 2) = (f + 2) + 2 by omega, he3, he]
      simp
  | const name v =>
    simp only [defLex] at h
    obtain ⟨t1, hn, htok, hl⟩ := Src.step (tok := ⟨.kConst, kwConst⟩) h
    obtain ⟨t2, h2, hsrc2, _⟩ := takeToks_ok [32] [tId (constTy v), tId name, tEq, constValTok v] _ t1 kwConst hl.src
    obtain ⟨t3, hn3, _, hl3⟩ := Src.step (tok := tSemi) hsrc2
    refine ⟨t3, hl3, ?_⟩
    have hk : t1.nextTok.kind = .kConst := by rw [htok]
    simp only [List.length_cons, List.length_nil, List.foldl_cons, List.foldl_nil] at h2
    show formatLoop fuel (f + 1) t out false nl = _
    rw [formatLoop]
    simp only [hn, hk, formatConst, htok, h2, hn3, sq_semi', defText, nlAfter]
    congr 1
    simp
  | import_ path =>
    simp only [defLex] at h
    obtain ⟨t1, hn, htok, hl⟩ := Src.step (tok := ⟨.kImport, kwImport⟩) h
    obtain ⟨t2, h2, hsrc2, _⟩ := takeToks_ok [32] [tStr path] _ t1 kwImport hl.src
    obtain ⟨t3, hl3, h3⟩ := fmt_nl fuel f (out ++ (if nl then [10] else []) ++ defText (.import_ path)) false hsrc2
    refine ⟨t3, hl3, ?_⟩
    have hk : t1.nextTok.kind = .kImport := by rw [htok]
    simp only [List.length_cons, List.length_nil, List.foldl_cons, List.foldl_nil, Nat.zero_add] at h2
    show formatLoop fuel (f + 1 + 1) t out false nl = formatLoop fuel f t3 _ false false
    rw [← h3, formatLoop]
    simp only [hn, hk, htok, h2, defText]
    congr 1
    simp

/-- `// doc` lines at top level: one iteration each; afterwards no empty line is pending -/
theorem top_doc_fmt (fuel : Nat) : ∀ (cs : List Str) (f : Nat) (out : List Byte) (nl : Bool) (r : List Lexeme) (t : TR),
    Src (toks (docLex [] cs r)) t →
    ∃ t', Src (toks r) t' ∧ formatLoop fuel (f + cs.length) t out false nl =
      formatLoop fuel f t' (out ++ cmtText [] cs) false (nl && cs.isEmpty)
  | [], f, out, nl, r, t, h => ⟨t, h, by simp [cmtText]⟩
  | c :: cs, f, out, nl, r, t, h => by
    simp only [docLex] at h
    obtain ⟨t1, hn, htok, hl⟩ := Src.step (tok := tCmt c) h
    have hk1 : t1.nextTok.kind = .lineComment := by rw [htok]
    obtain ⟨t', hsrc, he⟩ := top_doc_fmt fuel cs f (out ++ (tCmt c).concrete) false r t1 hl.src
    refine ⟨t', hsrc, ?_⟩
    rw [show f + (c :: cs).length = (f + cs.length) + 1 by simp; omega, formatLoop]
    simp only [hn, hk1, htok, he]
    simp [cmtText]

theorem fmt_file_loop (fuel : Nat) : ∀ (ds : CFile) (nl : Bool) (out : List Byte) (f : Nat) (t : TR),
    (∀ d ∈ ds, d.d.noMovedComments) → (∀ d ∈ ds, defLen d.d ≤ fuel) → (fileLex nl ds).length < f →
    Src (toks (fileLex nl ds)) t → formatLoop fuel f t out false nl = some (out ++ fileText nl ds)
  | [], nl, out, f, t, _, _, hf, h => by
    obtain ⟨f, rfl⟩ : ∃ g, f = g + 1 := ⟨f - 1, by omega⟩
    rw [fmt_end fuel f out false nl h]; simp [fileText]
  | d :: ds, nl, out, f, t, hmv, hfu, hf, h => by
    have hlen := fileLex_len nl d ds
    have hit := defIterF_le d.d
    have hstep : ∃ t0 f0, Src (toks (docLex [] d.doc (defLex d.d (fileLex (nlAfter d.d) ds)))) t0 ∧
        d.doc.length + defLen d.d + (fileLex (nlAfter d.d) ds).length < f0 ∧
        formatLoop fuel f t out false nl = formatLoop fuel f0 t0 out false nl := by
      cases hsep : (nl && d.doc.isEmpty) with
      | false => exact ⟨t, f, by simpa [fileLex, hsep] using h, by simp [hsep] at hlen; omega, rfl⟩
      | true =>
        obtain ⟨f, rfl⟩ : ∃ g, f = g + 1 := ⟨f - 1, by omega⟩
        simp only [fileLex, hsep, if_true, List.singleton_append] at h
        obtain ⟨t0, hl0, he0⟩ := fmt_nl fuel f out nl
          (rest := toks (docLex [] d.doc (defLex d.d (fileLex (nlAfter d.d) ds)))) h
        exact ⟨t0, f, hl0.src, by simp [hsep] at hlen; omega, he0⟩
    obtain ⟨t0, f0, hsrc0, hf0, he0⟩ := hstep
    obtain ⟨f1, rfl⟩ : ∃ g, f0 = g + d.doc.length := ⟨f0 - d.doc.length, by omega⟩
    obtain ⟨ta, hsrca, hea⟩ := top_doc_fmt fuel d.doc f1 out nl _ t0 hsrc0
    obtain ⟨f2, rfl⟩ : ∃ g, f1 = g + defIterF d.d := ⟨f1 - defIterF d.d, by omega⟩
    obtain ⟨t1, hl1, he1⟩ := fmt_def fuel f2 (out ++ cmtText [] d.doc) (nl && d.doc.isEmpty) d.d
      (hmv d (List.mem_cons_self)) (hfu d (List.mem_cons_self)) hsrca
    have he' := fmt_file_loop fuel ds (nlAfter d.d)
      (out ++ cmtText [] d.doc ++ (if (nl && d.doc.isEmpty) then [10] else []) ++ defText d.d) f2 t1
      (fun x hx => hmv x (List.mem_cons_of_mem _ hx)) (fun x hx => hfu x (List.mem_cons_of_mem _ hx)) (by omega) hl1.src
    rw [he0, hea, he1, he']
    cases hsep : (nl && d.doc.isEmpty) with
    | false => simp [fileText, hsep]
    | true =>
      have hsep' := hsep
      simp only [Bool.and_eq_true, List.isEmpty_iff] at hsep'
      obtain ⟨hnl, hdoc⟩ := hsep'
      simp [fileText, hdoc, hnl, cmtText]

/-- Format emits the canonical text on every admissible layout of a well-formed schema. -/
theorem format_schema (f : CFile) (hf : CFileOk f) (w : Nat → List Byte) (hw : LayoutOk w (fileLex false f)) :
    format (laidOutF w f) = some (canonTextF f) := by
  have hlex := lex_schema f hf.1 w hw (mkTR (laidOutF w f)) (mkTR_ok _) rfl
  have hlen : (fileLex false f).length ≤ (laidOutF w f).length :=
    render_len w _ 0 (fileLex_wf f hf.1.1 false).lexsOk.toks
  have := fmt_file_loop (2 * (laidOutF w f).length + 4) f false [] (2 * (laidOutF w f).length + 4)
    (mkTR (laidOutF w f)) hf.2 (fun d hd => by have := defLen_mem false hd; omega) (by omega) hlex.src
  unfold format
  rw [this, canonTextF_eq_fileText]
  simp

end Canon
end Bebop.Text
