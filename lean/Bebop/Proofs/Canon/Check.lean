/-
  Canon/Check: executable (Bool-valued) well-formedness checkers for schemas of the extended sub-language,
  with soundness lemmas: `cfileOkB f = true → CFileOk f`.
-/
import Bebop.Proofs.Canon.Lang

namespace Bebop.Text

def optAll {α} (p : α → Bool) : Option α → Bool
  | none => true
  | some a => p a

def ctypeOkB : CType → Bool
  | .name n _ => IdentOk n
  | .array t _ => ctypeOkB t
  | .map key v _ => IdentOk key && isPrimitiveName key && ctypeOkB v

def bodyDocOkB (c : Str) : Bool :=
  docLineOk c && (commentTag c).isSome

def cfieldOkB (f : CField) : Bool :=
  f.doc.all bodyDocOkB && optAll docLineOk f.trail && optAll strBodyOk f.dep && ctypeOkB f.ty && IdentOk f.name

def opLitOkB : OpLit → Bool
  | .num lit => numLitOk lit && (parseUint lit true 32).isSome
  | .str s => strBodyOk s && s.length == 4

def cmsgFieldOkB (g : CMsgField) : Bool :=
  optAll docLineOk g.trail && g.doc.all bodyDocOkB && optAll strBodyOk g.dep && numLitOk g.idx &&
  (match parseUint g.idx false 8 with | some n => n != 0 | none => false) && ctypeOkB g.ty && IdentOk g.name

def etokOkB : ETok → Bool
  | .lit s => numLitOk s
  | .ref n => IdentOk n
  | _ => true

def cenumOptOkB (fl : Bool) (bits : Nat) (unsigned : Bool) (prev : List EnumOption) (o : CEnumOpt) : Bool :=
  o.doc.all docLineOk && optAll strBodyOk o.dep && IdentOk o.name && o.val.all etokOkB &&
  (enumVal fl bits unsigned prev (o.val.map ETok.tok)).isSome

def cenumOptsOkB (fl : Bool) (bits : Nat) (unsigned : Bool) : List EnumOption → List CEnumOpt → Bool
  | _, [] => true
  | acc, o :: os =>
    cenumOptOkB fl bits unsigned acc o && cenumOptsOkB fl bits unsigned (acc ++ [enumOptOf fl bits unsigned acc o]) os

def cconstVOkB : CConstV → Bool
  | .int ty lit => IdentOk ty && numLitOk lit && (isUintName ty || isIntName ty || isFloatName ty)
  | .bool _ => true
  | .str body => strBodyOk body
  | .float ty _ ip fp =>
    IdentOk ty && !(isUintName ty || isIntName ty) && isFloatName ty && !ip.isEmpty && ip.all isNumeric &&
    !fp.isEmpty && fp.all isNumeric
  | .inf ty => IdentOk ty && !(isUintName ty || isIntName ty) && isFloatName ty
  | .negInf ty => IdentOk ty && !(isUintName ty || isIntName ty) && isFloatName ty
  | .nan ty => IdentOk ty && !(isUintName ty || isIntName ty) && isFloatName ty
  | .guid body => strBodyOk body && (body.filter (· != 0x2d)).length == 32

def cumemberOkB : CUMember → Bool
  | .struct doc dep idx name fields =>
    doc.all bodyDocOkB && optAll strBodyOk dep && numLitOk idx && (parseUint idx false 8).isSome && IdentOk name &&
    fields.all cfieldOkB
  | .message doc dep idx name fields =>
    doc.all bodyDocOkB && optAll strBodyOk dep && numLitOk idx && (parseUint idx false 8).isSome && IdentOk name &&
    fields.all cmsgFieldOkB && decide (fields.map (fun g => idxVal g.idx)).Nodup

def cdefOkB : CDef → Bool
  | .struct op _ name fields => optAll opLitOkB op && IdentOk name && fields.all cfieldOkB
  | .message op name fields =>
    optAll opLitOkB op && IdentOk name && fields.all cmsgFieldOkB && decide (fields.map (fun g => idxVal g.idx)).Nodup
  | .union op name members =>
    optAll opLitOkB op && IdentOk name && members.all cumemberOkB && decide (members.map (fun m => idxVal m.idx)).Nodup
  | .enum fl name base opts =>
    IdentOk name && optAll (fun b => IdentOk b && (isUintName b || isIntName b) && (decodeInteger b).isSome) base &&
    cenumOptsOkB fl (enumBits base).1 (enumBits base).2 [] opts
  | .const name v => IdentOk name && cconstVOkB v
  | .import_ path => strBodyOk path

def ctopOkB (d : CTop) : Bool := d.doc.all docLineOk && (!d.d.isImport || d.doc.isEmpty) && cdefOkB d.d

def noDocAfterConstB : CFile → Bool
  | a :: b :: r => (!a.d.isConst || b.doc.isEmpty) && noDocAfterConstB (b :: r)
  | _ => true

/-- The executable well-formedness check of a schema, for the parser theorems. -/
def cfileOkPB (f : CFile) : Bool := f.all ctopOkB && noDocAfterConstB f

def noMovedCommentsB : CDef → Bool
  | .message _ _ fields => fields.all (fun g => g.trail.isNone)
  | .union _ _ members => members.all (fun m =>
      match m with
      | .message _ _ _ _ fields => fields.all (fun g => g.trail.isNone)
      | _ => true)
  | _ => true

/-- The executable well-formedness check of a schema, for the formatter (and parser) theorems. -/
def cfileOkB (f : CFile) : Bool := cfileOkPB f && f.all (fun d => noMovedCommentsB d.d)

namespace Canon

theorem optAll_sound {α} {p : α → Bool} {o : Option α} (h : optAll p o = true) : ∀ a, o = some a → p a = true := by
  intro a ha; subst ha; exact h

theorem ctypeOkB_sound : ∀ (t : CType), ctypeOkB t = true → CTypeOk t
  | .name n k, h => h
  | .array t k, h => ctypeOkB_sound t h
  | .map key v k, h => by
    simp only [ctypeOkB, Bool.and_eq_true] at h
    exact ⟨h.1.1, h.1.2, ctypeOkB_sound v h.2⟩

theorem bodyDocOkB_sound {c : Str} (h : bodyDocOkB c = true) : bodyDocOk c := by
  simp only [bodyDocOkB, Bool.and_eq_true] at h
  exact ⟨h.1, h.2⟩

theorem all_bodyDoc {l : List Str} (h : l.all bodyDocOkB = true) : ∀ c ∈ l, bodyDocOk c :=
  fun c hc => bodyDocOkB_sound (List.all_eq_true.1 h c hc)

theorem cfieldOkB_sound {f : CField} (h : cfieldOkB f = true) : CFieldOk f := by
  simp only [cfieldOkB, Bool.and_eq_true] at h
  obtain ⟨⟨⟨⟨h1, h2⟩, h3⟩, h4⟩, h5⟩ := h
  exact ⟨all_bodyDoc h1, optAll_sound h2, optAll_sound h3, ctypeOkB_sound _ h4, h5⟩

theorem opLitOkB_sound {o : OpLit} (h : opLitOkB o = true) : OpLitOk o := by
  cases o with
  | num lit => simpa [opLitOkB, OpLitOk] using h
  | str s => simpa [opLitOkB, OpLitOk] using h

theorem cmsgFieldOkB_sound {g : CMsgField} (h : cmsgFieldOkB g = true) : CMsgFieldOk g := by
  simp only [cmsgFieldOkB, Bool.and_eq_true] at h
  obtain ⟨⟨⟨⟨⟨⟨h0, h1⟩, h2⟩, h3⟩, h4⟩, h5⟩, h6⟩ := h
  refine ⟨optAll_sound h0, all_bodyDoc h1, optAll_sound h2, h3, ?_, ctypeOkB_sound _ h5, h6⟩
  cases hp : parseUint g.idx false 8 with
  | none => rw [hp] at h4; cases h4
  | some n => rw [hp] at h4; exact ⟨n, rfl, by simpa using h4⟩

theorem etokOkB_sound {e : ETok} (h : etokOkB e = true) : ETokOk e := by
  cases e <;> first | exact h | trivial

theorem cenumOptOkB_sound {fl : Bool} {bits : Nat} {uns : Bool} {prev : List EnumOption} {o : CEnumOpt}
    (h : cenumOptOkB fl bits uns prev o = true) : CEnumOptOk fl bits uns prev o := by
  simp only [cenumOptOkB, Bool.and_eq_true] at h
  obtain ⟨⟨⟨⟨h1, h2⟩, h3⟩, h4⟩, h5⟩ := h
  exact ⟨fun c hc => List.all_eq_true.1 h1 c hc, optAll_sound h2, h3,
    fun e he => etokOkB_sound (List.all_eq_true.1 h4 e he), h5⟩

theorem cenumOptsOkB_sound {fl : Bool} {bits : Nat} {uns : Bool} : ∀ (os : List CEnumOpt) (acc : List EnumOption),
    cenumOptsOkB fl bits uns acc os = true → CEnumOptsOk fl bits uns acc os
  | [], _, _ => trivial
  | o :: os, acc, h => by
    simp only [cenumOptsOkB, Bool.and_eq_true] at h
    exact ⟨cenumOptOkB_sound h.1, cenumOptsOkB_sound os _ h.2⟩

theorem cconstVOkB_sound {v : CConstV} (h : cconstVOkB v = true) : CConstVOk v := by
  cases v with
  | int ty lit =>
    simp only [cconstVOkB, Bool.and_eq_true] at h
    exact ⟨h.1.1, h.1.2, h.2⟩
  | bool b => trivial
  | str body => exact h
  | float ty neg ip fp =>
    simp only [cconstVOkB, Bool.and_eq_true, Bool.not_eq_true', List.isEmpty_eq_false_iff] at h
    obtain ⟨⟨⟨⟨⟨⟨h1, h2⟩, h3⟩, h4⟩, h5⟩, h6⟩, h7⟩ := h
    exact ⟨h1, h2, h3, h4, h5, h6, h7⟩
  | inf ty =>
    simp only [cconstVOkB, Bool.and_eq_true, Bool.not_eq_true'] at h
    exact ⟨h.1.1, h.1.2, h.2⟩
  | negInf ty =>
    simp only [cconstVOkB, Bool.and_eq_true, Bool.not_eq_true'] at h
    exact ⟨h.1.1, h.1.2, h.2⟩
  | nan ty =>
    simp only [cconstVOkB, Bool.and_eq_true, Bool.not_eq_true'] at h
    exact ⟨h.1.1, h.1.2, h.2⟩
  | guid body =>
    simp only [cconstVOkB, Bool.and_eq_true, beq_iff_eq] at h
    exact h

theorem cumemberOkB_sound {m : CUMember} (h : cumemberOkB m = true) : CUMemberOk m := by
  cases m with
  | struct doc dep idx name fields =>
    simp only [cumemberOkB, Bool.and_eq_true] at h
    obtain ⟨⟨⟨⟨⟨h1, h2⟩, h3⟩, h4⟩, h5⟩, h6⟩ := h
    exact ⟨all_bodyDoc h1, optAll_sound h2, h3, h4, h5, fun f hf => cfieldOkB_sound (List.all_eq_true.1 h6 f hf)⟩
  | message doc dep idx name fields =>
    simp only [cumemberOkB, Bool.and_eq_true, decide_eq_true_eq] at h
    obtain ⟨⟨⟨⟨⟨⟨h1, h2⟩, h3⟩, h4⟩, h5⟩, h6⟩, h7⟩ := h
    exact ⟨all_bodyDoc h1, optAll_sound h2, h3, h4, h5, fun g hg => cmsgFieldOkB_sound (List.all_eq_true.1 h6 g hg), h7⟩

theorem cdefOkB_sound {d : CDef} (h : cdefOkB d = true) : CDefOk d := by
  cases d with
  | struct op ro name fields =>
    simp only [cdefOkB, Bool.and_eq_true] at h
    exact ⟨fun o ho => opLitOkB_sound (optAll_sound h.1.1 o ho), h.1.2,
      fun f hf => cfieldOkB_sound (List.all_eq_true.1 h.2 f hf)⟩
  | message op name fields =>
    simp only [cdefOkB, Bool.and_eq_true, decide_eq_true_eq] at h
    exact ⟨fun o ho => opLitOkB_sound (optAll_sound h.1.1.1 o ho), h.1.1.2,
      fun g hg => cmsgFieldOkB_sound (List.all_eq_true.1 h.1.2 g hg), h.2⟩
  | union op name members =>
    simp only [cdefOkB, Bool.and_eq_true, decide_eq_true_eq] at h
    exact ⟨fun o ho => opLitOkB_sound (optAll_sound h.1.1.1 o ho), h.1.1.2,
      fun m hm => cumemberOkB_sound (List.all_eq_true.1 h.1.2 m hm), h.2⟩
  | enum fl name base opts =>
    simp only [cdefOkB, Bool.and_eq_true] at h
    refine ⟨h.1.1, fun b hb => ?_, cenumOptsOkB_sound opts [] h.2⟩
    have := optAll_sound h.1.2 b hb
    simp only [Bool.and_eq_true] at this
    exact ⟨this.1.1, this.1.2, this.2⟩
  | const name v =>
    simp only [cdefOkB, Bool.and_eq_true] at h
    exact ⟨h.1, cconstVOkB_sound h.2⟩
  | import_ path => exact h

theorem ctopOkB_sound {d : CTop} (h : ctopOkB d = true) : CTopOk d := by
  simp only [ctopOkB, Bool.and_eq_true, Bool.or_eq_true, Bool.not_eq_true', List.isEmpty_iff] at h
  refine ⟨fun c hc => List.all_eq_true.1 h.1.1 c hc, fun hi => ?_, cdefOkB_sound h.2⟩
  rcases h.1.2 with h2 | h2
  · rw [hi] at h2; cases h2
  · exact h2

theorem noDocAfterConstB_sound : ∀ (f : CFile), noDocAfterConstB f = true → noDocAfterConst f
  | [], _ => trivial
  | [_], _ => trivial
  | a :: b :: r, h => by
    simp only [noDocAfterConstB, Bool.and_eq_true, Bool.or_eq_true, Bool.not_eq_true', List.isEmpty_iff] at h
    refine ⟨fun hc => ?_, noDocAfterConstB_sound (b :: r) h.2⟩
    rcases h.1 with h1 | h1
    · rw [hc] at h1; cases h1
    · exact h1

/-- The executable checks are sound. -/
theorem cfileOkPB_sound {f : CFile} (h : cfileOkPB f = true) : CFileOkP f := by
  simp only [cfileOkPB, Bool.and_eq_true] at h
  exact ⟨fun d hd => ctopOkB_sound (List.all_eq_true.1 h.1 d hd), noDocAfterConstB_sound f h.2⟩

theorem noMovedCommentsB_sound {d : CDef} (h : noMovedCommentsB d = true) : d.noMovedComments := by
  cases d with
  | message op name fields =>
    intro g hg
    have := List.all_eq_true.1 h g hg
    simpa using this
  | union op name members =>
    intro m hm
    have := List.all_eq_true.1 h m hm
    cases m with
    | struct doc dep idx n fs => trivial
    | message doc dep idx n gs =>
      intro g hg
      have := List.all_eq_true.1 this g hg
      simpa using this
  | struct op ro name fields => trivial
  | enum fl name base opts => trivial
  | const name v => trivial
  | import_ path => trivial

theorem cfileOkB_sound {f : CFile} (h : cfileOkB f = true) : CFileOk f := by
  simp only [cfileOkB, Bool.and_eq_true] at h
  exact ⟨cfileOkPB_sound h.1, fun d hd => noMovedCommentsB_sound (List.all_eq_true.1 h.2 d hd)⟩

end Canon
end Bebop.Text
