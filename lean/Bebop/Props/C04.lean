/-
  C04 — Schema evolution (forward compatibility).

  A record encoded under a NEWER version of a schema (`env2`: messages have gained fields with fresh, higher
  indices; or the peer still transmits a field the reader has marked deprecated) decodes without error under
  the OLDER version (`env1`) to the same value restricted to the fields the older version knows
  (`restrict env1`).  This holds wherever the evolved message sits — `restrict` recurses through struct
  fields, array elements, map values, message fields and union branches, and keeps everything that is not an
  unknown message field, so every field that follows an evolved message in its container is decoded intact.

  * DecodeBebop (io.Reader): full strength, `C04_decode_evolved`.
  * UnmarshalBebop / MustUnmarshalBebop (byte slice): `C04_unmarshal_evolved_partial`, under the guard
    `TopStable`; `C04_nested_struct_counterexample` shows that the guard cannot be dropped (a listed finding:
    the parent steps over a nested STRUCT by `Size()` of what it understood).  `Size()` is the reader's
    generated one (`gsize env1`): it leaves out the fields the reader does not know AND the fields the reader
    marks deprecated, so the second scenario needs the guard as well
    (`C04_deprecated_nested_struct_counterexample`).  The guard constrains only structs somebody steps over
    by `Size()`: the top-level struct is exempt, and so is a struct that is itself a UNION BRANCH — the
    union decodes its member last and is stepped over by its own length prefix — which is treated like a
    top-level struct: only what it contains is constrained (`C04_union_branch_struct_example`).
-/
import Bebop.Props.Common
import Bebop.Proofs.Evolve

namespace Bebop

/-! ### A. DecodeBebop: full strength -/

/-- DecodeBebop of the older schema on a record the newer schema encoded returns nil and the restricted
    value, having taken from the reader exactly the bytes of the record (whatever follows on the stream is
    left unread) — for every record kind and wherever the evolved messages sit. No guard. -/
theorem C04_decode_evolved (env1 env2 : Env) (hE1 : EnvOk env1) (hx : Extends env1 env2) (n : Nat) (v : Val)
    (hw : wt env2 (.ref n) v) (f : Nat) (hf : rank v < f) (rest : List Byte) :
    decodeStream f env1 n (enc v ++ rest) = .ok (restrict env1 (.ref n) v) (enc v).length := by
  match f, hf with
  | f+1, hf =>
  have hr : Reads { data := enc v ++ rest, limits := [], err := false } (enc v) := ⟨rfl, ⟨rest, rfl⟩, by simp⟩
  have := sdec_evo env1 env2 hE1 hx v (.ref n) (f+2) _ hw (by omega) hr
  simp only [sdec] at this
  simp [decodeStream, this, RState.consume]

/-- The same for a field of any type in any position: with the reader healthy and about to deliver `enc v`
    within all installed limited readers, the field decoder of the older schema yields the restricted value
    and leaves the reader exactly behind the field — so whatever follows it in its container is read from
    the right place. -/
theorem C04_decode_evolved_field (env1 env2 : Env) (hE1 : EnvOk env1) (hx : Extends env1 env2) (ty : Ty) (v : Val)
    (hw : wt env2 ty v) (f : Nat) (hf : rank v < f) (s : RState) (hr : Reads s (enc v)) :
    sdec f env1 ty s = (.val (restrict env1 ty v), s.consume (enc v).length) :=
  sdec_evo env1 env2 hE1 hx v ty f s hw hf hr

/-! ### B. UnmarshalBebop / MustUnmarshalBebop: guarded -/

/-- UnmarshalBebop (`safe = true`) and MustUnmarshalBebop (`safe = false`) of the older schema on a record
    the newer schema encoded (anything may follow it in the buffer) return the restricted value.

    PARTIAL: holds under the guard `TopStable env1 n v`.  The guard excludes exactly the values in which some
    STRUCT that somebody steps over by its `Size()` — a struct-typed struct field, array element, map value
    or message field value — contains, at any depth, a message field the older schema does not
    know or marks deprecated (precisely: `gsize env1 (.ref m) (restrict env1 (.ref m) s) ≠ vsize s` for that
    struct `s` — the reader's `Size()` of what it decodes differs from the bytes on the wire).  Two kinds of
    struct are NOT stepped over by `Size()` and are exempt themselves (the structs nested inside them are
    not): the top-level record, and a struct that is itself a union member — the union decodes its member
    last and the union is stepped over by its length prefix, so such a struct is treated like a top-level
    struct (`structsStable_union`, `C04_union_branch_struct_example`).  Evolved messages
    that are the top-level record, or sit directly or through arrays / maps / messages / unions in a
    top-level struct, message or union (or in a union-member struct) without an intervening nested struct,
    are all covered.  `C04_nested_struct_counterexample` shows the excluded case really fails. -/
theorem C04_unmarshal_evolved_partial (env1 env2 : Env) (hE1 : EnvOk env1) (hx : Extends env1 env2) (n : Nat)
    (v : Val) (safe : Bool) (f : Nat) (hw : wt env2 (.ref n) v) (hs : TopStable env1 n v) (hf : rank v < f + 1)
    (rest : List Byte) :
    unmarshal f env1 safe n (enc v ++ rest) = .ok (restrict env1 (.ref n) v) :=
  unmarshal_evo env1 env2 hE1 hx n v safe f hw hs hf rest

/-- Field level, same guard in nested position: the cursor ends exactly behind the field (`rest` is
    returned untouched), which is why fields after a nested evolved MESSAGE are intact: the parent advances
    by the length prefix on the wire, not by what it understood. -/
theorem C04_unmarshal_evolved_field_partial (env1 env2 : Env) (hE1 : EnvOk env1) (hx : Extends env1 env2) (ty : Ty)
    (v : Val) (safe : Bool) (f : Nat) (hw : wt env2 ty v) (hs : StructsStable env1 ty v) (hf : rank v < f)
    (rest : List Byte) :
    dec f env1 safe ty (enc v ++ rest) = .ok (restrict env1 ty v, rest) :=
  dec_evo env1 env2 hE1 hx v ty safe f rest hw hs hf

/-- The safe variant's `max(wire length, Size())` never exceeds the wire length: restriction cannot grow
    `Size()`. -/
theorem C04_restrict_size_le (env1 : Env) (ty : Ty) (v : Val) : vsize (restrict env1 ty v) ≤ vsize v :=
  vsize_restrict_le env1 v ty

/-- … and the reader's generated `Size()` of what it decodes — which in addition skips the fields the
    reader marks deprecated — is smaller still.  This is the number in the safe variant's `max`. -/
theorem C04_reader_size_le_wire (env1 : Env) (ty : Ty) (v : Val) :
    gsize env1 ty (restrict env1 ty v) ≤ vsize v :=
  gsize_restrict_le env1 v ty

/-! ### C. The guard cannot be dropped -/

/-- Old schema: `message Ev {1 -> uint32 a;}  struct Inner {Ev m; uint32 after;}  struct Outer {Inner s; uint32 tail;}` -/
def cxEnv1 : Env :=
  [.msg [⟨1, .scalar 4, false⟩], .struct [.ref 0, .scalar 4], .struct [.ref 1, .scalar 4]]
/-- New schema: `Ev` has gained `2 -> uint32 b;`. -/
def cxEnv2 : Env :=
  [.msg [⟨1, .scalar 4, false⟩, ⟨2, .scalar 4, false⟩], .struct [.ref 0, .scalar 4], .struct [.ref 1, .scalar 4]]
/-- `Outer{s: Inner{m: Ev{a: 1, b: 2}, after: 3}, tail: 4}` -/
def cxVal : Val := .struct [.struct [.msg [(1, .scalar 4 1), (2, .scalar 4 2)], .scalar 4 3], .scalar 4 4]

theorem cxEnv1_ok : EnvOk cxEnv1 := by
  intro d hd
  simp [cxEnv1] at hd
  rcases hd with rfl | rfl | rfl <;> simp [DefOk]

theorem cx_extends : Extends cxEnv1 cxEnv2 :=
  ⟨DefExtends.msg_of_mem (by decide), rfl, rfl, trivial⟩

theorem cxVal_wt : wt cxEnv2 (.ref 2) cxVal := by
  refine ⟨2, _, rfl, rfl, ?_⟩
  simp only [wtStruct]
  refine ⟨⟨1, _, rfl, rfl, ?_⟩, by simp [wt], trivial⟩
  simp only [wtStruct]
  refine ⟨⟨0, _, rfl, rfl, ?_, by decide⟩, by simp [wt], trivial⟩
  simp only [wtMsg, cxEnv2, List.find?]
  exact ⟨by decide, by decide, ⟨_, rfl, rfl, by simp [wt]⟩, by decide, by decide, ⟨_, rfl, rfl, by simp [wt]⟩, trivial⟩

/-- `Inner{m: Ev{a: 1, b: 2}, after: 3}`, the nested struct of `cxVal`, as a record of its own. -/
def cxInner : Val := .struct [.msg [(1, .scalar 4 1), (2, .scalar 4 2)], .scalar 4 3]

theorem cxInner_wt : wt cxEnv2 (.ref 1) cxInner := by
  have := cxVal_wt
  simp only [cxVal, wt] at this
  obtain ⟨n, tys, hn, htys, hs⟩ := this
  cases hn
  simp only [cxEnv2, List.getElem?_cons_succ, List.getElem?_cons_zero, Option.some.injEq, Def.struct.injEq] at htys
  subst htys
  simp only [wtStruct] at hs
  exact hs.1

/-- An evolved message inside a NESTED struct: all hypotheses of `C04_unmarshal_evolved_partial` except the
    guard hold (`cxEnv1_ok`, `cx_extends`, `cxVal_wt`), and both byte-slice decoders return nil with a WRONG
    value — `Inner` is decoded correctly, but `Outer` steps over it by `Size()` of the restricted `Inner`
    (14 instead of 19 bytes) and reads `tail` from the middle of it: 768 instead of 4.  DecodeBebop gets the
    same bytes right. -/
theorem C04_nested_struct_counterexample :
    unmarshal 10 cxEnv1 true 2 (enc cxVal) ≠ .ok (restrict cxEnv1 (.ref 2) cxVal) ∧
    unmarshal 10 cxEnv1 false 2 (enc cxVal) ≠ .ok (restrict cxEnv1 (.ref 2) cxVal) ∧
    unmarshal 10 cxEnv1 true 2 (enc cxVal)
      = .ok (.struct [.struct [.msg [(1, .scalar 4 1)], .scalar 4 3], .scalar 4 768]) ∧
    restrict cxEnv1 (.ref 2) cxVal = .struct [.struct [.msg [(1, .scalar 4 1)], .scalar 4 3], .scalar 4 4] ∧
    ¬ TopStable cxEnv1 2 cxVal ∧
    decodeStream 10 cxEnv1 2 (enc cxVal) = .ok (restrict cxEnv1 (.ref 2) cxVal) (enc cxVal).length := by
  have h1 : unmarshal 10 cxEnv1 true 2 (enc cxVal)
      = .ok (.struct [.struct [.msg [(1, .scalar 4 1)], .scalar 4 3], .scalar 4 768]) := by rfl
  have h2 : unmarshal 10 cxEnv1 false 2 (enc cxVal)
      = .ok (.struct [.struct [.msg [(1, .scalar 4 1)], .scalar 4 3], .scalar 4 768]) := by rfl
  have h3 : restrict cxEnv1 (.ref 2) cxVal
      = .struct [.struct [.msg [(1, .scalar 4 1)], .scalar 4 3], .scalar 4 4] := by rfl
  refine ⟨?_, ?_, h1, h3, ?_, ?_⟩
  · rw [h1, h3]; simp
  · rw [h2, h3]; simp
  · intro hs
    have hsz : gsize cxEnv1 (.ref 1) (restrict cxEnv1 (.ref 1) (.struct [.msg [(1, .scalar 4 1), (2, .scalar 4 2)], .scalar 4 3]))
        = vsize (.struct [.msg [(1, .scalar 4 1), (2, .scalar 4 2)], .scalar 4 3]) := by
      simp only [TopStable, cxVal, cxEnv1, List.getElem?_cons_succ, List.getElem?_cons_zero, stableStruct,
        StructsStable] at hs
      exact hs.1.1
    revert hsz
    decide
  · exact C04_decode_evolved cxEnv1 cxEnv2 cxEnv1_ok cx_extends 2 cxVal cxVal_wt 10 (by decide) [] |>
      (by simpa using ·)

/-- The same evolved message directly in the TOP-LEVEL struct (`Inner` of the counterexample decoded as the
    top-level record) is inside the guard: `after`, which follows it, is intact with both slice decoders. -/
example (safe : Bool) (rest : List Byte) :
    unmarshal 10 cxEnv1 safe 1 (enc (.struct [.msg [(1, .scalar 4 1), (2, .scalar 4 2)], .scalar 4 3]) ++ rest)
      = .ok (.struct [.msg [(1, .scalar 4 1)], .scalar 4 3]) := by
  have hw : wt cxEnv2 (.ref 1) (.struct [.msg [(1, .scalar 4 1), (2, .scalar 4 2)], .scalar 4 3]) := cxInner_wt
  have hs : TopStable cxEnv1 1 (.struct [.msg [(1, .scalar 4 1), (2, .scalar 4 2)], .scalar 4 3]) := by
    simp [TopStable, cxEnv1, StructsStable, stableStruct, stableFields]
  exact C04_unmarshal_evolved_partial cxEnv1 cxEnv2 cxEnv1_ok cx_extends 1 _ safe 10 hw hs (by decide) rest

/-! ### D. The reader has marked a field deprecated; same schema -/

/-- If the reader's schema also knows every field of the sender's (`Extends env2 env1` — e.g. the two are
    equal, or differ only in which fields carry the `deprecated` flag), restriction is the identity. -/
theorem C04_restrict_id_of_known (env1 env2 : Env) (hx : Extends env2 env1) (ty : Ty) (v : Val) (hw : wt env2 ty v) :
    restrict env1 ty v = v :=
  restrict_id_of_known env1 env2 hx v ty hw

theorem C04_restrict_self (env : Env) (ty : Ty) (v : Val) (hw : wt env ty v) : restrict env ty v = v :=
  restrict_self env ty v hw

/-- A peer still transmitting fields the reader has marked deprecated (schemas equal up to `deprecated`
    flags, stated as extension in both directions): DecodeBebop returns the value unchanged, the deprecated
    fields included, with no guard; the two byte-slice decoders do so under the guard `TopStable env1 n v`.

    CHANGED with the corrected `Size()` (`gsize`, which skips the fields the reader marks deprecated): the
    slice half used to be stated without a guard.  That was an artefact of the model counting deprecated
    fields in `Size()`.  The generated code steps over a nested STRUCT by its `Size()`; a deprecated field
    the peer still sends makes that smaller than the struct's bytes on the wire, and whatever follows the
    struct is read from the wrong place — `C04_deprecated_nested_struct_counterexample`.  The guard holds
    whenever no such field sits inside a struct in nested position (messages that are the top-level record
    or reached from it through arrays / maps / messages / unions / the top-level struct's own fields are
    fine: they are stepped over by the length prefix). -/
theorem C04_deprecated_still_decoded (env1 env2 : Env) (hE1 : EnvOk env1) (hx : Extends env1 env2)
    (hx' : Extends env2 env1) (n : Nat) (v : Val) (hw : wt env2 (.ref n) v) (f : Nat) (hf : rank v < f + 1)
    (rest : List Byte) :
    decodeStream (f+1) env1 n (enc v ++ rest) = .ok v (enc v).length ∧
    (TopStable env1 n v → ∀ safe, unmarshal f env1 safe n (enc v ++ rest) = .ok v) := by
  have hid := restrict_id_of_known env1 env2 hx' v (.ref n) hw
  constructor
  · have := C04_decode_evolved env1 env2 hE1 hx n v hw (f+1) (by omega) rest
    rwa [hid] at this
  · intro hs safe
    have := C04_unmarshal_evolved_partial env1 env2 hE1 hx n v safe f hw hs hf rest
    rwa [hid] at this

/-- With `env1 = env2` the evolution theorems are the round-trip theorems of C01 / C05. -/
theorem C04_same_schema_roundtrip (env : Env) (hE : EnvOk env) (n : Nat) (v : Val) (hw : wt env (.ref n) v)
    (f : Nat) (hf : rank v < f + 1) (rest : List Byte) :
    decodeStream (f+1) env n (enc v ++ rest) = .ok v (enc v).length ∧
    ∀ safe, unmarshal f env safe n (enc v ++ rest) = .ok v :=
  have h := C04_deprecated_still_decoded env env hE (Extends.refl env) (Extends.refl env) n v hw f hf rest
  ⟨h.1, h.2 (topStable_self env n v hw)⟩

/-- Concrete instance: the reader has marked field 2 of `Ev` deprecated, the peer still sends it. -/
def depEnv1 : Env :=
  [.msg [⟨1, .scalar 4, false⟩, ⟨2, .scalar 4, true⟩], .struct [.ref 0, .scalar 4], .struct [.ref 1, .scalar 4]]

theorem depEnv1_ok : EnvOk depEnv1 := by
  intro d hd
  simp [depEnv1] at hd
  rcases hd with rfl | rfl | rfl <;> simp [DefOk]

theorem dep_extends : Extends depEnv1 cxEnv2 := ⟨DefExtends.msg_of_mem (by decide), rfl, rfl, trivial⟩
theorem dep_extends' : Extends cxEnv2 depEnv1 := ⟨DefExtends.msg_of_mem (by decide), rfl, rfl, trivial⟩

/-- `Inner{m: Ev{a, b}, after}` as the top-level record: the message with the deprecated field sits directly
    in the top-level struct, the guard holds, and both slice decoders return the value with `b` and with
    `after` intact. -/
example (safe : Bool) (rest : List Byte) : unmarshal 10 depEnv1 safe 1 (enc cxInner ++ rest) = .ok cxInner := by
  have hs : TopStable depEnv1 1 cxInner := by
    simp [TopStable, cxInner, depEnv1, StructsStable, stableStruct, stableFields]
  exact (C04_deprecated_still_decoded depEnv1 cxEnv2 depEnv1_ok dep_extends dep_extends' 1 cxInner cxInner_wt 10
    (by decide) rest).2 hs safe

/-- The guard of `C04_deprecated_still_decoded` cannot be dropped: the same `Inner` as a NESTED struct of
    `Outer`.  All other hypotheses hold (`depEnv1_ok`, `dep_extends`, `dep_extends'`, `cxVal_wt`); both
    byte-slice decoders return nil with a WRONG value: `Inner` is decoded correctly, deprecated `b`
    included, but `Outer` steps over it by `Inner.Size()`, which leaves `b` out (14 instead of 19 bytes),
    and reads `tail` from the middle of it: 768 instead of 4.  DecodeBebop gets the same bytes right.
    (With the earlier model, whose `Size()` counted deprecated fields, the slice decoders were — wrongly —
    predicted to return `cxVal` here.) -/
theorem C04_deprecated_nested_struct_counterexample :
    unmarshal 10 depEnv1 true 2 (enc cxVal)
      = .ok (.struct [.struct [.msg [(1, .scalar 4 1), (2, .scalar 4 2)], .scalar 4 3], .scalar 4 768]) ∧
    unmarshal 10 depEnv1 false 2 (enc cxVal)
      = .ok (.struct [.struct [.msg [(1, .scalar 4 1), (2, .scalar 4 2)], .scalar 4 3], .scalar 4 768]) ∧
    unmarshal 10 depEnv1 true 2 (enc cxVal) ≠ .ok cxVal ∧
    unmarshal 10 depEnv1 false 2 (enc cxVal) ≠ .ok cxVal ∧
    gsize depEnv1 (.ref 1) cxInner = 14 ∧ vsize cxInner = 19 ∧
    ¬ TopStable depEnv1 2 cxVal ∧
    decodeStream 10 depEnv1 2 (enc cxVal) = .ok cxVal (enc cxVal).length := by
  have h1 : unmarshal 10 depEnv1 true 2 (enc cxVal)
      = .ok (.struct [.struct [.msg [(1, .scalar 4 1), (2, .scalar 4 2)], .scalar 4 3], .scalar 4 768]) := by rfl
  have h2 : unmarshal 10 depEnv1 false 2 (enc cxVal)
      = .ok (.struct [.struct [.msg [(1, .scalar 4 1), (2, .scalar 4 2)], .scalar 4 3], .scalar 4 768]) := by rfl
  refine ⟨h1, h2, ?_, ?_, by decide, by decide, ?_, ?_⟩
  · rw [h1]; simp [cxVal]
  · rw [h2]; simp [cxVal]
  · intro hs
    have hsz : gsize depEnv1 (.ref 1) (restrict depEnv1 (.ref 1) (.struct [.msg [(1, .scalar 4 1), (2, .scalar 4 2)], .scalar 4 3]))
        = vsize (.struct [.msg [(1, .scalar 4 1), (2, .scalar 4 2)], .scalar 4 3]) := by
      simp only [TopStable, cxVal, depEnv1, List.getElem?_cons_succ, List.getElem?_cons_zero, stableStruct,
        StructsStable] at hs
      exact hs.1.1
    revert hsz
    decide
  · exact (C04_deprecated_still_decoded depEnv1 cxEnv2 depEnv1_ok dep_extends dep_extends' 2 cxVal cxVal_wt 9
      (by decide) []).1 |> (by simpa using ·)

/-! ### E. Non-vacuity: an evolved message in an array inside a message -/

/-- Old: `message Ev {1 -> uint32 a;}  message Box {1 -> Ev[] evs; 2 -> uint32 after;}` -/
def evEnv1 : Env :=
  [.msg [⟨1, .scalar 4, false⟩], .msg [⟨1, .arr (.ref 0), false⟩, ⟨2, .scalar 4, false⟩]]
/-- New: `Ev` has gained `2 -> string note;`, `Box` has gained `3 -> bool flag;`. -/
def evEnv2 : Env :=
  [.msg [⟨1, .scalar 4, false⟩, ⟨2, .str, false⟩],
   .msg [⟨1, .arr (.ref 0), false⟩, ⟨2, .scalar 4, false⟩, ⟨3, .bool, false⟩]]
/-- `Box{evs: [Ev{a: 7, note: "hi"}, Ev{note: "x"}], after: 9, flag: true}` -/
def evVal : Val :=
  .msg [(1, .arr [.msg [(1, .scalar 4 7), (2, .str [104, 105])], .msg [(2, .str [120])]]), (2, .scalar 4 9),
        (3, .scalar 1 1)]

theorem evEnv1_ok : EnvOk evEnv1 := by
  intro d hd
  simp [evEnv1] at hd
  rcases hd with rfl | rfl <;> simp [DefOk]

theorem ev_extends : Extends evEnv1 evEnv2 :=
  ⟨DefExtends.msg_of_mem (by decide), DefExtends.msg_of_mem (by decide), trivial⟩

theorem evVal_wt : wt evEnv2 (.ref 1) evVal := by
  refine ⟨1, _, rfl, rfl, ?_, by decide⟩
  simp only [wtMsg, evEnv2, List.find?]
  refine ⟨by decide, by decide, ⟨_, rfl, rfl, ?_⟩, by decide, by decide, ⟨_, rfl, rfl, by simp [wt]⟩, by decide, by decide,
    ⟨_, rfl, rfl, by simp [wt]⟩, trivial⟩
  refine ⟨_, rfl, by decide, ⟨?_, ?_, trivial⟩, Or.inl (by decide)⟩
  · refine ⟨0, _, rfl, rfl, ?_, by decide⟩
    simp only [wtMsg, List.find?]
    exact ⟨by decide, by decide, ⟨_, rfl, rfl, by simp [wt]⟩, by decide, by decide, ⟨_, rfl, rfl, by simp [wt]⟩, trivial⟩
  · refine ⟨0, _, rfl, rfl, ?_, by decide⟩
    simp only [wtMsg, List.find?]
    exact ⟨by decide, by decide, ⟨_, rfl, rfl, by simp [wt]⟩, trivial⟩

theorem evVal_stable : TopStable evEnv1 1 evVal := by
  simp [TopStable, evVal, evEnv1, StructsStable, stableFields, stableList]

/-- What the old reader is expected to see: the unknown fields are gone, `after` — which FOLLOWS the array
    of evolved messages — is intact. -/
theorem evVal_restrict :
    restrict evEnv1 (.ref 1) evVal = .msg [(1, .arr [.msg [(1, .scalar 4 7)], .msg []]), (2, .scalar 4 9)] := by rfl

/-- All hypotheses of A and B are satisfiable together, and the conclusion is not the trivial one. -/
example (rest : List Byte) :
    decodeStream 10 evEnv1 1 (enc evVal ++ rest)
      = .ok (.msg [(1, .arr [.msg [(1, .scalar 4 7)], .msg []]), (2, .scalar 4 9)]) (enc evVal).length := by
  rw [← evVal_restrict]
  exact C04_decode_evolved evEnv1 evEnv2 evEnv1_ok ev_extends 1 evVal evVal_wt 10 (by decide) rest

example (safe : Bool) (rest : List Byte) :
    unmarshal 10 evEnv1 safe 1 (enc evVal ++ rest)
      = .ok (.msg [(1, .arr [.msg [(1, .scalar 4 7)], .msg []]), (2, .scalar 4 9)]) := by
  rw [← evVal_restrict]
  exact C04_unmarshal_evolved_partial evEnv1 evEnv2 evEnv1_ok ev_extends 1 evVal safe 10 evVal_wt evVal_stable
    (by decide) rest

/-! ### F. Non-vacuity: a struct that is itself a union branch may hold an evolved message -/

/-- Old: `message Ev {1 -> uint32 a;}  struct Inner {Ev m; uint32 after;}  union U {1 -> Inner; 2 -> Ev;}`
    (the branch records are written as separate definitions; `U` is record 2). -/
def ubEnv1 : Env :=
  [.msg [⟨1, .scalar 4, false⟩], .struct [.ref 0, .scalar 4], .union [(1, 1), (2, 0)]]
/-- New: `Ev` has gained `2 -> uint32 b;`. -/
def ubEnv2 : Env :=
  [.msg [⟨1, .scalar 4, false⟩, ⟨2, .scalar 4, false⟩], .struct [.ref 0, .scalar 4], .union [(1, 1), (2, 0)]]
/-- `Inner{m: Ev{a: 1, b: 2}, after: 3}`: the branch struct, holding an `Ev` with the NEW field set. -/
def ubInner : Val := .struct [.msg [(1, .scalar 4 1), (2, .scalar 4 2)], .scalar 4 3]
/-- `U{Inner: Inner{m: Ev{a: 1, b: 2}, after: 3}}` -/
def ubVal : Val := .union 1 ubInner

theorem ubEnv1_ok : EnvOk ubEnv1 := by
  intro d hd
  simp [ubEnv1] at hd
  rcases hd with rfl | rfl | rfl <;> simp [DefOk]

theorem ub_extends : Extends ubEnv1 ubEnv2 :=
  ⟨DefExtends.msg_of_mem (by decide), rfl, rfl, trivial⟩

theorem ubVal_wt : wt ubEnv2 (.ref 2) ubVal := by
  refine ⟨2, _, 1, rfl, rfl, by decide, rfl, ⟨1, _, rfl, rfl, ?_⟩, by decide⟩
  simp only [wtStruct]
  refine ⟨⟨0, _, rfl, rfl, ?_, by decide⟩, by simp [wt], trivial⟩
  simp only [wtMsg, ubEnv2, List.find?]
  exact ⟨by decide, by decide, ⟨_, rfl, rfl, by simp [wt]⟩, by decide, by decide, ⟨_, rfl, rfl, by simp [wt]⟩, trivial⟩

/-- The guard holds: the branch struct `Inner` is the union's member, so only its contents are constrained
    (an `Ev` directly in it — stepped over by its length prefix — and a scalar). -/
theorem ubVal_stable : TopStable ubEnv1 2 ubVal := by
  simp [TopStable, ubVal, ubInner, ubEnv1, StructsStable, stableStruct, stableFields]

/-- What the old reader is expected to see: `b` is gone, `after` — which FOLLOWS the evolved message in the
    branch struct — is intact. -/
theorem ubVal_restrict :
    restrict ubEnv1 (.ref 2) ubVal = .union 1 (.struct [.msg [(1, .scalar 4 1)], .scalar 4 3]) := by rfl

/-- A struct that IS a union branch, holding an evolved message followed by another field:
    (a) the value is well-typed under the newer schema;
    (b) the guard `TopStable` holds, ALTHOUGH the branch struct's own size equation fails — the reader's
        `Size()` of the `Inner` it decodes is 14, the struct occupies 19 bytes — so in nested position
        (`StructsStable … (.ref 1)`: a struct field, array element, …) the same `Inner` is excluded;
    (c) both byte-slice decoders of the older schema return the restricted value, `after` intact, whatever
        follows the record in the buffer — by `C04_unmarshal_evolved_partial`: the union decodes its member
        last and nobody advances by the member's `Size()`. -/
theorem C04_union_branch_struct_example (rest : List Byte) :
    wt ubEnv2 (.ref 2) ubVal ∧
    TopStable ubEnv1 2 ubVal ∧
    gsize ubEnv1 (.ref 1) (restrict ubEnv1 (.ref 1) ubInner) ≠ vsize ubInner ∧
    gsize ubEnv1 (.ref 1) (restrict ubEnv1 (.ref 1) ubInner) = 14 ∧ vsize ubInner = 19 ∧
    ¬ StructsStable ubEnv1 (.ref 1) ubInner ∧
    unmarshal 10 ubEnv1 true 2 (enc ubVal ++ rest)
      = .ok (.union 1 (.struct [.msg [(1, .scalar 4 1)], .scalar 4 3])) ∧
    unmarshal 10 ubEnv1 false 2 (enc ubVal ++ rest)
      = .ok (.union 1 (.struct [.msg [(1, .scalar 4 1)], .scalar 4 3])) := by
  have hne : gsize ubEnv1 (.ref 1) (restrict ubEnv1 (.ref 1) ubInner) ≠ vsize ubInner := by decide
  refine ⟨ubVal_wt, ubVal_stable, hne, by decide, by decide, ?_, ?_, ?_⟩
  · intro hs
    simp only [ubInner, StructsStable] at hs
    exact hne hs.1
  · rw [← ubVal_restrict]
    exact C04_unmarshal_evolved_partial ubEnv1 ubEnv2 ubEnv1_ok ub_extends 2 ubVal true 10 ubVal_wt ubVal_stable
      (by decide) rest
  · rw [← ubVal_restrict]
    exact C04_unmarshal_evolved_partial ubEnv1 ubEnv2 ubEnv1_ok ub_extends 2 ubVal false 10 ubVal_wt ubVal_stable
      (by decide) rest

end Bebop
