// Package filedump renders a bebop.File in the canonical one-line form of lean/Bebop/Text/Dump.lean.
package filedump

import (
	"encoding/hex"
	"sort"
	"strconv"
	"strings"

	"github.com/200sc/bebop"
)

func hx(s string) string {
	if s == "" {
		return "-"
	}
	return hex.EncodeToString([]byte(s))
}

func b01(b bool) string {
	if b {
		return "1"
	}
	return "0"
}

func ft(t bebop.FieldType) string {
	if t.Map != nil {
		return "m " + hx(t.Map.Key) + " " + ft(t.Map.Value)
	}
	if t.Array != nil {
		return "a " + ft(*t.Array)
	}
	return "s " + hx(t.Simple)
}

func tags(ts []bebop.Tag) string {
	var b strings.Builder
	b.WriteString(strconv.Itoa(len(ts)))
	for _, t := range ts {
		b.WriteString(" " + hx(t.Key) + " " + hx(t.Value) + " " + b01(t.Boolean))
	}
	return b.String()
}

func field(f bebop.Field) string {
	return "fd " + ft(f.FieldType) + " " + hx(f.Name) + " " + hx(f.Comment) + " " + tags(f.Tags) + " " +
		hx(f.DeprecatedMessage) + " " + b01(f.Deprecated)
}

// Struct renders a struct.
func Struct(s bebop.Struct) string {
	var b strings.Builder
	b.WriteString("st " + hx(s.Name) + " " + hx(s.Comment) + " " + strconv.FormatUint(uint64(s.OpCode), 10) + " " +
		b01(s.ReadOnly) + " " + strconv.Itoa(len(s.Fields)))
	for _, f := range s.Fields {
		b.WriteString(" " + field(f))
	}
	return b.String()
}

// Message renders a message with its fields in ascending index order.
func Message(m bebop.Message) string {
	var b strings.Builder
	b.WriteString("ms " + hx(m.Name) + " " + hx(m.Comment) + " " + strconv.FormatUint(uint64(m.OpCode), 10) + " " +
		strconv.Itoa(len(m.Fields)))
	idx := make([]int, 0, len(m.Fields))
	for i := range m.Fields {
		idx = append(idx, int(i))
	}
	sort.Ints(idx)
	for _, i := range idx {
		b.WriteString(" " + strconv.Itoa(i) + " " + field(m.Fields[uint8(i)]))
	}
	return b.String()
}

// Union renders a union with its members in ascending index order.
func Union(u bebop.Union) string {
	var b strings.Builder
	b.WriteString("un " + hx(u.Name) + " " + hx(u.Comment) + " " + strconv.FormatUint(uint64(u.OpCode), 10) + " " +
		strconv.Itoa(len(u.Fields)))
	idx := make([]int, 0, len(u.Fields))
	for i := range u.Fields {
		idx = append(idx, int(i))
	}
	sort.Ints(idx)
	for _, i := range idx {
		uf := u.Fields[uint8(i)]
		b.WriteString(" " + strconv.Itoa(i) + " uf ")
		switch {
		case uf.Message != nil:
			b.WriteString(Message(*uf.Message))
		case uf.Struct != nil:
			b.WriteString(Struct(*uf.Struct))
		default:
			b.WriteString("none")
		}
		b.WriteString(" " + tags(uf.Tags) + " " + hx(uf.DeprecatedMessage) + " " + b01(uf.Deprecated))
	}
	return b.String()
}

// Enum renders an enum.
func Enum(e bebop.Enum) string {
	var b strings.Builder
	b.WriteString("en " + hx(e.Name) + " " + hx(e.Comment) + " " + hx(e.SimpleType) + " " + b01(e.Unsigned) + " " +
		strconv.Itoa(len(e.Options)))
	for _, o := range e.Options {
		b.WriteString(" opt " + hx(o.Name) + " " + hx(o.Comment) + " " + hx(o.DeprecatedMessage) + " " +
			strconv.FormatInt(o.Value, 10) + " " + strconv.FormatUint(o.UintValue, 10) + " " + b01(o.Deprecated))
	}
	return b.String()
}

// Const renders a const.
func Const(c bebop.Const) string {
	return "co " + hx(c.SimpleType) + " " + hx(c.Name) + " " + hx(c.Comment) + " " + hx(c.Value)
}

// File renders a whole File (FileName is not part of the meaning).
func File(f bebop.File) string {
	var b strings.Builder
	b.WriteString("file imports " + strconv.Itoa(len(f.Imports)))
	for _, i := range f.Imports {
		b.WriteString(" " + hx(i))
	}
	b.WriteString(" gopkg " + hx(f.GoPackage))
	b.WriteString(" consts " + strconv.Itoa(len(f.Consts)))
	for _, c := range f.Consts {
		b.WriteString(" " + Const(c))
	}
	b.WriteString(" enums " + strconv.Itoa(len(f.Enums)))
	for _, e := range f.Enums {
		b.WriteString(" " + Enum(e))
	}
	b.WriteString(" structs " + strconv.Itoa(len(f.Structs)))
	for _, s := range f.Structs {
		b.WriteString(" " + Struct(s))
	}
	b.WriteString(" messages " + strconv.Itoa(len(f.Messages)))
	for _, m := range f.Messages {
		b.WriteString(" " + Message(m))
	}
	b.WriteString(" unions " + strconv.Itoa(len(f.Unions)))
	for _, u := range f.Unions {
		b.WriteString(" " + Union(u))
	}
	return b.String()
}

// Meaning is File without the attachment of doc comments (C16: "only the attachment of doc comments
// may differ"): every Comment field is blanked.
func Meaning(f bebop.File) string {
	g := f
	g.Consts = append([]bebop.Const(nil), f.Consts...)
	for i := range g.Consts {
		g.Consts[i].Comment = ""
	}
	g.Enums = nil
	for _, e := range f.Enums {
		e.Comment = ""
		opts := append([]bebop.EnumOption(nil), e.Options...)
		for i := range opts {
			opts[i].Comment = ""
		}
		e.Options = opts
		g.Enums = append(g.Enums, e)
	}
	g.Structs = nil
	for _, s := range f.Structs {
		g.Structs = append(g.Structs, stripStruct(s))
	}
	g.Messages = nil
	for _, m := range f.Messages {
		g.Messages = append(g.Messages, stripMessage(m))
	}
	g.Unions = nil
	for _, u := range f.Unions {
		u.Comment = ""
		fs := map[uint8]bebop.UnionField{}
		for i, uf := range u.Fields {
			if uf.Struct != nil {
				s := stripStruct(*uf.Struct)
				uf.Struct = &s
			}
			if uf.Message != nil {
				m := stripMessage(*uf.Message)
				uf.Message = &m
			}
			uf.Tags = nil
			fs[i] = uf
		}
		u.Fields = fs
		g.Unions = append(g.Unions, u)
	}
	return File(g)
}

func stripField(f bebop.Field) bebop.Field {
	f.Comment = ""
	f.Tags = nil // tags live in comments
	return f
}

func stripStruct(s bebop.Struct) bebop.Struct {
	s.Comment = ""
	fs := make([]bebop.Field, len(s.Fields))
	for i, f := range s.Fields {
		fs[i] = stripField(f)
	}
	s.Fields = fs
	return s
}

func stripMessage(m bebop.Message) bebop.Message {
	m.Comment = ""
	fs := map[uint8]bebop.Field{}
	for i, f := range m.Fields {
		fs[i] = stripField(f)
	}
	m.Fields = fs
	return m
}
