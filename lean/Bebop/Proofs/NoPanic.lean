/-
  Helper lemmas: the checked (safe) byte-slice decoder never panics, on any input.

  The invariant that makes it work: whenever a decoder returns a value, the cursor has advanced by
  at least `Size()` of that value (`Adv`).  That is what keeps `at += tmp.Size()` inside the buffer.
  `Size()` is the generated one, `gsize`: deprecated fields, which are decoded but not counted, only make
  it smaller than the bytes consumed.
-/
import Bebop.Proofs.GSize

namespace Bebop

/-- Outcome is not a panic, and a returned value's size is covered by the bytes consumed. -/
def Adv (env : Env) (ty : Ty) (buf : List Byte) : Res (Val × List Byte) → Prop
  | .ok (v, rest) => rest.length + gsize env ty v ≤ buf.length
  | .err => True
  | .panic => False
  | .fuel => True

def AdvList (env : Env) (t : Ty) (buf : List Byte) (extra : Nat) : Res (List Val × List Byte) → Prop
  | .ok (vs, rest) => rest.length + gsizeList env t vs ≤ buf.length + extra
  | .err => True
  | .panic => False
  | .fuel => True

/-- The same for the fields of a struct, each at its own type. -/
def AdvStruct (env : Env) (tys : List Ty) (buf : List Byte) : Res (List Val × List Byte) → Prop
  | .ok (vs, rest) => rest.length + gsizeStruct env tys vs ≤ buf.length
  | .err => True
  | .panic => False
  | .fuel => True

theorem readN_true (n : Nat) (buf : List Byte) :
    (∃ bs rest, readN true n buf = .ok (bs, rest) ∧ bs.length = n ∧ rest.length + n = buf.length ∧ buf = bs ++ rest)
    ∨ readN true n buf = .err := by
  unfold readN
  by_cases h : n ≤ buf.length
  · left
    refine ⟨buf.take n, buf.drop n, by simp [h], by simp [List.length_take]; omega, by simp [List.length_drop]; omega, by simp⟩
  · right; simp [h]

theorem readU32_true (buf : List Byte) :
    (∃ n rest, readU32 true buf = .ok (n, rest) ∧ rest.length + 4 = buf.length) ∨ readU32 true buf = .err := by
  unfold readU32
  rcases readN_true 4 buf with ⟨bs, rest, h, _, hl, _⟩ | h
  · left; exact ⟨ofLe bs, rest, by simp [h], hl⟩
  · right; simp [h]

/-- Unchecked reads of a fixed-size type succeed when enough bytes remain. -/
theorem dec_fixed_unsafe (f : Nat) (env : Env) (t : Ty) (s : Nat) (hs : fixedSize t = some s)
    (buf : List Byte) (h : s ≤ buf.length) :
    ∃ v, dec (f+1) env false t buf = .ok (v, buf.drop s) ∧ gsize env t v = s := by
  cases t <;> simp [fixedSize] at hs
  all_goals subst hs
  all_goals simp [dec, readN, h, gsize, Facts.szBool, Facts.szFloat32, Facts.szFloat64, Facts.szDate, Facts.szGuid] at *
  all_goals simp [h, gsize]

theorem decN_fixed_unsafe (f : Nat) (env : Env) (t : Ty) (s : Nat) (hs : fixedSize t = some s) :
    ∀ (n : Nat) (buf : List Byte), n * s ≤ buf.length →
      decN (dec (f+1) env false t) n buf = .fuel ∨
      ∃ vs, decN (dec (f+1) env false t) n buf = .ok (vs, buf.drop (n * s)) ∧ gsizeList env t vs = n * s
  | 0, buf, _ => Or.inr ⟨[], by simp [decN], by simp [gsizeList]⟩
  | n+1, buf, h => by
    have h1 : s ≤ buf.length := by rw [Nat.add_mul] at h; omega
    obtain ⟨v, hv, hvs⟩ := dec_fixed_unsafe f env t s hs buf h1
    have h2 : n * s ≤ (buf.drop s).length := by rw [Nat.add_mul] at h; simp [List.length_drop]; omega
    simp only [decN, hv, Res.ok_bind]
    split
    · exact Or.inl rfl
    · rcases decN_fixed_unsafe f env t s hs n (buf.drop s) h2 with hf | ⟨vs, hvs', hsz⟩
      · left; simp [hf]
      · right
        refine ⟨v :: vs, ?_, ?_⟩
        · simp only [hvs', Res.ok_bind, Res.pure_eq, List.drop_drop]
          congr 3; rw [Nat.add_mul]; omega
        · simp [gsizeList, hvs, hsz, Nat.add_mul]; omega

theorem decN_adv (env : Env) (t : Ty) (d : Dec) (hd : ∀ buf, Adv env t buf (d buf)) :
    ∀ (n : Nat) (buf : List Byte), AdvList env t buf 0 (decN d n buf)
  | 0, buf => by simp [decN, AdvList, gsizeList]
  | n+1, buf => by
    have h1 := hd buf
    simp only [decN]
    cases hr : d buf with
    | ok p =>
      obtain ⟨v, rest⟩ := p
      rw [hr] at h1
      simp only [Adv] at h1
      have h2 := decN_adv env t d hd n rest
      simp only [Res.ok_bind]
      split
      · simp [AdvList]
      · cases hr2 : decN d n rest with
        | ok q =>
          obtain ⟨vs, rest'⟩ := q
          rw [hr2] at h2
          simp only [AdvList] at h2
          simp only [Res.ok_bind, Res.pure_eq, AdvList, gsizeList]
          omega
        | err => simp [AdvList]
        | panic => rw [hr2] at h2; simp [AdvList] at h2
        | fuel => simp [AdvList]
    | err => simp [AdvList]
    | panic => rw [hr] at h1; simp [Adv] at h1
    | fuel => simp [AdvList]

theorem decFields_adv (env : Env) (d : Ty → Dec) (hd : ∀ t buf, Adv env t buf (d t buf)) :
    ∀ (tys : List Ty) (buf : List Byte), AdvStruct env tys buf (decFields d tys buf)
  | [], buf => by simp [decFields, AdvStruct, gsizeStruct]
  | t :: ts, buf => by
    have h1 := hd t buf
    simp only [decFields]
    cases hr : d t buf with
    | ok p =>
      obtain ⟨v, rest⟩ := p
      rw [hr] at h1
      simp only [Adv] at h1
      have h2 := decFields_adv env d hd ts rest
      simp only [Res.ok_bind]
      cases hr2 : decFields d ts rest with
      | ok q =>
        obtain ⟨vs, rest'⟩ := q
        rw [hr2] at h2
        simp only [AdvStruct] at h2
        simp only [Res.ok_bind, Res.pure_eq, AdvStruct, gsizeStruct]
        omega
      | err => simp [AdvStruct]
      | panic => rw [hr2] at h2; simp [AdvStruct] at h2
      | fuel => simp [AdvStruct]
    | err => simp [AdvStruct]
    | panic => rw [hr] at h1; simp [Adv] at h1
    | fuel => simp [AdvStruct]

theorem gsizeKVs_mapInsert (env : Env) (kty t : Ty) (kt : Ty) (k v : Val) :
    ∀ acc : List (Val × Val),
      gsizeKVs env kty t (mapInsert kt k v acc) ≤ gsizeKVs env kty t acc + gsize env kty k + gsize env t v
  | [] => by simp [mapInsert, gsizeKVs]
  | (k', v') :: acc => by
    have ih := gsizeKVs_mapInsert env kty t kt k v acc
    simp only [mapInsert]
    split <;> simp [gsizeKVs] <;> omega

/-- Storing a field the definition knows adds at most its tag byte and the value's `Size()` (nothing at
    all if the field is deprecated); overwriting only removes what was there. -/
theorem gsizeFields_msgSet (env : Env) (fds : List MsgField) (i : Nat) (v : Val) (fd : MsgField)
    (hfd : fds.find? (fun fd => fd.idx == i) = some fd) :
    ∀ acc : List (Nat × Val),
      gsizeFields env fds (msgSet i v acc) ≤ gsizeFields env fds acc + 1 + gsize env fd.ty v
  | [] => by
    have := gfield_le env fds i v fd hfd
    simp only [msgSet, gsizeFields_cons, gsizeFields]; omega
  | (j, w) :: acc => by
    have ih := gsizeFields_msgSet env fds i v fd hfd acc
    have := gfield_le env fds i v fd hfd
    simp only [msgSet]
    split
    · simp only [gsizeFields_cons]; omega
    · split <;> simp only [gsizeFields_cons] <;> omega

def AdvKVs (env : Env) (kty t : Ty) (buf : List Byte) (extra : Nat) : Res (List (Val × Val) × List Byte) → Prop
  | .ok (kvs, rest) => rest.length + gsizeKVs env kty t kvs ≤ buf.length + extra
  | .err => True
  | .panic => False
  | .fuel => True

theorem decEntries_adv (env : Env) (kty t : Ty) (kt : Ty) (dk dv : Dec) (hk : ∀ buf, Adv env kty buf (dk buf))
    (hv : ∀ buf, Adv env t buf (dv buf)) :
    ∀ (n : Nat) (buf : List Byte) (acc : List (Val × Val)),
      AdvKVs env kty t buf (gsizeKVs env kty t acc) (decEntries kt dk dv n buf acc)
  | 0, buf, acc => by simp [decEntries, AdvKVs]
  | n+1, buf, acc => by
    have h1 := hk buf
    simp only [decEntries]
    cases hr : dk buf with
    | ok p =>
      obtain ⟨k, rest⟩ := p
      rw [hr] at h1; simp only [Adv] at h1
      have h2 := hv rest
      simp only [Res.ok_bind]
      cases hr2 : dv rest with
      | ok q =>
        obtain ⟨v, rest'⟩ := q
        rw [hr2] at h2; simp only [Adv] at h2
        simp only [Res.ok_bind]
        have h3 := decEntries_adv env kty t kt dk dv hk hv n rest' (mapInsert kt k v acc)
        have h4 := gsizeKVs_mapInsert env kty t kt k v acc
        cases hr3 : decEntries kt dk dv n rest' (mapInsert kt k v acc) with
        | ok z =>
          obtain ⟨kvs, rest''⟩ := z
          rw [hr3] at h3; simp only [AdvKVs] at h3
          simp only [AdvKVs]; omega
        | err => simp [AdvKVs]
        | panic => rw [hr3] at h3; simp [AdvKVs] at h3
        | fuel => simp [AdvKVs]
      | err => simp [AdvKVs]
      | panic => rw [hr2] at h2; simp [Adv] at h2
      | fuel => simp [AdvKVs]
    | err => simp [AdvKVs]
    | panic => rw [hr] at h1; simp [Adv] at h1
    | fuel => simp [AdvKVs]

/-- The message loop stops in front of a byte it did not consume, having advanced by at least the size
    of every field it stored. -/
def AdvLoop (env : Env) (fds : List MsgField) (buf : List Byte) (extra : Nat) :
    Res (List (Nat × Val) × List Byte) → Prop
  | .ok (fs, rest) => 1 ≤ rest.length ∧ rest.length + gsizeFields env fds fs ≤ buf.length + extra
  | .err => True
  | .panic => False
  | .fuel => True

theorem decMsgLoop_adv (env : Env) (d : Ty → Dec) (hd : ∀ t buf, Adv env t buf (d t buf)) (fds : List MsgField) :
    ∀ (n : Nat) (buf : List Byte) (acc : List (Nat × Val)),
      AdvLoop env fds buf (gsizeFields env fds acc) (decMsgLoop true d fds n buf acc)
  | 0, buf, acc => by simp [decMsgLoop, AdvLoop]
  | n+1, buf, acc => by
    simp only [decMsgLoop]
    cases buf with
    | nil => simp [AdvLoop]
    | cons b rest =>
      simp only
      cases hfd : fds.find? (fun fd => fd.idx == b.toNat) with
      | none => simp [AdvLoop]
      | some fd =>
        simp only
        have h1 := hd fd.ty rest
        cases hr : d fd.ty rest with
        | ok p =>
          obtain ⟨v, rest'⟩ := p
          rw [hr] at h1; simp only [Adv] at h1
          simp only [Res.ok_bind]
          have h2 := decMsgLoop_adv env d hd fds n rest' (msgSet fd.idx v acc)
          have hfd' : fds.find? (fun fd' => fd'.idx == fd.idx) = some fd := by
            rw [find_msgField fds b.toNat fd hfd]; exact hfd
          have h3 := gsizeFields_msgSet env fds fd.idx v fd hfd' acc
          cases hr2 : decMsgLoop true d fds n rest' (msgSet fd.idx v acc) with
          | ok z =>
            obtain ⟨fs, rest''⟩ := z
            rw [hr2] at h2; simp only [AdvLoop] at h2
            simp only [AdvLoop, List.length_cons]; omega
          | err => simp [AdvLoop]
          | panic => rw [hr2] at h2; simp [AdvLoop] at h2
          | fuel => simp [AdvLoop]
        | err => simp [AdvLoop]
        | panic => rw [hr] at h1; simp [Adv] at h1
        | fuel => simp [AdvLoop]

/-- For record bodies only the size bound matters to the caller (it discards the returned rest). -/
def AdvBody (env : Env) (ty : Ty) (buf : List Byte) : Res (Val × List Byte) → Prop
  | .ok (v, _) => gsize env ty v ≤ buf.length
  | .err => True
  | .panic => False
  | .fuel => True

theorem dec_adv_all (env : Env) : ∀ (f : Nat),
    (∀ ty buf, Adv env ty buf (dec f env true ty buf)) ∧
    (∀ n fds buf, env[n]? = some (.msg fds) → AdvBody env (.ref n) buf (decMsgBody f env true fds buf)) ∧
    (∀ n brs buf, env[n]? = some (.union brs) → AdvBody env (.ref n) buf (decUnionBody f env true brs buf))
  | 0 => by
    refine ⟨?_, ?_, ?_⟩ <;> intros <;> simp [dec, decMsgBody, decUnionBody, Adv, AdvBody]
  | f+1 => by
    obtain ⟨ihd, ihm, ihu⟩ := dec_adv_all env f
    have hmsg : ∀ n fds buf, env[n]? = some (.msg fds) →
        AdvBody env (.ref n) buf (decMsgBody (f+1) env true fds buf) := by
      intro n fds buf hn
      simp only [decMsgBody]
      rcases readN_true 4 buf with ⟨bs, body, h, _, hl, _⟩ | h
      · simp only [h, Res.ok_bind]
        have h2 := decMsgLoop_adv env (dec f env true) ihd fds (body.length + 1) body []
        cases hr : decMsgLoop true (dec f env true) fds (body.length + 1) body [] with
        | ok z =>
          obtain ⟨fs, rest⟩ := z
          rw [hr] at h2; simp only [AdvLoop, gsizeFields] at h2
          simp only [Res.ok_bind, Res.pure_eq, AdvBody, gsize, hn, Facts.msgSizeBase]; omega
        | err => simp [AdvBody]
        | panic => rw [hr] at h2; simp [AdvLoop] at h2
        | fuel => simp [AdvBody]
      · simp [h, AdvBody]
    have hun : ∀ n brs buf, env[n]? = some (.union brs) →
        AdvBody env (.ref n) buf (decUnionBody (f+1) env true brs buf) := by
      intro n brs buf hn
      simp only [decUnionBody]
      rcases readN_true 4 buf with ⟨bs, body, h, _, hl, _⟩ | h
      · simp only [h, Res.ok_bind]
        cases body with
        | nil => simp [AdvBody]
        | cons b rest =>
          simp only
          cases hm : brs.lookup b.toNat with
          | none =>
            simp only [Res.pure_eq, AdvBody]
            have hle := gsize_emptyUnion_le env (.ref n)
            simp only [emptyUnion, vsize, vsizeList, Facts.unionSizeBase] at hle
            simp only [emptyUnion] at hle ⊢
            simp only [List.length_cons] at hl; omega
          | some m =>
            simp only
            have h1 := ihd (.ref m) rest
            cases hr : dec f env true (.ref m) rest with
            | ok p =>
              obtain ⟨v, rest'⟩ := p
              rw [hr] at h1; simp only [Adv] at h1
              simp only [Res.ok_bind, Res.pure_eq, AdvBody, gsize, hn, hm, Facts.unionSizeBase]
              simp only [List.length_cons] at hl; omega
            | err => simp [AdvBody]
            | panic => rw [hr] at h1; simp [Adv] at h1
            | fuel => simp [AdvBody]
      · simp [h, AdvBody]
    refine ⟨?_, hmsg, hun⟩
    intro ty buf
    cases ty with
    | bool =>
      simp only [dec]
      rcases readN_true Facts.szBool buf with ⟨bs, rest, h, _, hl, _⟩ | h
      · simp only [h, Res.ok_bind, Res.pure_eq, Adv, gsize]; simp [Facts.szBool] at hl; omega
      · simp [h, Adv]
    | scalar w =>
      simp only [dec]
      rcases readN_true w buf with ⟨bs, rest, h, _, hl, _⟩ | h
      · simp only [h, Res.ok_bind, Res.pure_eq, Adv, gsize]; omega
      · simp [h, Adv]
    | f32 =>
      simp only [dec]
      rcases readN_true Facts.szFloat32 buf with ⟨bs, rest, h, _, hl, _⟩ | h
      · simp only [h, Res.ok_bind, Res.pure_eq, Adv, gsize]; simp [Facts.szFloat32] at hl; omega
      · simp [h, Adv]
    | f64 =>
      simp only [dec]
      rcases readN_true Facts.szFloat64 buf with ⟨bs, rest, h, _, hl, _⟩ | h
      · simp only [h, Res.ok_bind, Res.pure_eq, Adv, gsize]; simp [Facts.szFloat64] at hl; omega
      · simp [h, Adv]
    | date =>
      simp only [dec]
      rcases readN_true Facts.szDate buf with ⟨bs, rest, h, _, hl, _⟩ | h
      · simp only [h, Res.ok_bind, Res.pure_eq, Adv, gsize]; simp [Facts.szDate] at hl; omega
      · simp [h, Adv]
    | guid =>
      simp only [dec]
      rcases readN_true Facts.szGuid buf with ⟨bs, rest, h, _, hl, _⟩ | h
      · simp only [h, Res.ok_bind, Res.pure_eq, Adv, gsize]; simp [Facts.szGuid] at hl; omega
      · simp [h, Adv]
    | str =>
      simp only [dec]
      rcases readU32_true buf with ⟨n, rest, h, hl⟩ | h
      · simp only [h, Res.ok_bind]
        rcases readN_true n rest with ⟨bs, rest', h', hb, hl', _⟩ | h'
        · simp only [h', Res.ok_bind, Res.pure_eq, Adv, gsize]; omega
        · simp [h', Adv]
      · simp [h, Adv]
    | arr t =>
      simp only [dec]
      rcases readU32_true buf with ⟨n, rest, h, hl⟩ | h
      · simp only [h, Res.ok_bind, if_true]
        cases hfs : fixedSize t with
        | none =>
          simp only
          have h2 := decN_adv env t (dec f env true t) (ihd t) n rest
          cases hr : decN (dec f env true t) n rest with
          | ok z =>
            obtain ⟨vs, rest'⟩ := z
            rw [hr] at h2; simp only [AdvList] at h2
            simp only [Res.ok_bind, Res.pure_eq, Adv, gsize]; omega
          | err => simp [Adv]
          | panic => rw [hr] at h2; simp [AdvList] at h2
          | fuel => simp [Adv]
        | some s =>
          simp only
          by_cases hlt : rest.length < n * s
          · simp [hlt, Adv]
          · simp only [hlt, if_false]
            cases f with
            | zero =>
              cases n with
              | zero => simp [decN, Adv, gsize, gsizeList]; omega
              | succ n => simp [decN, dec, Adv]
            | succ f' =>
              rcases decN_fixed_unsafe f' env t s hfs n rest (by omega) with hfu | ⟨vs, hvs, hsz⟩
              · simp [hfu, Adv]
              · simp only [hvs, Res.ok_bind, Res.pure_eq, Adv, gsize, hsz, List.length_drop]; omega
      · simp [h, Adv]
    | map k v =>
      simp only [dec]
      rcases readU32_true buf with ⟨n, rest, h, hl⟩ | h
      · simp only [h, Res.ok_bind]
        have h2 := decEntries_adv env k v k (dec f env true k) (dec f env true v) (ihd k) (ihd v) n rest []
        cases hr : decEntries k (dec f env true k) (dec f env true v) n rest [] with
        | ok z =>
          obtain ⟨kvs, rest'⟩ := z
          rw [hr] at h2; simp only [AdvKVs, gsizeKVs] at h2
          simp only [Res.ok_bind, Res.pure_eq, Adv, gsize]; omega
        | err => simp [Adv]
        | panic => rw [hr] at h2; simp [AdvKVs] at h2
        | fuel => simp [Adv]
      · simp [h, Adv]
    | ref n =>
      simp only [dec]
      cases hn : env[n]? with
      | none => simp [Adv]
      | some d =>
        cases d with
        | struct tys =>
          simp only
          have h2 := decFields_adv env (dec f env true) ihd tys buf
          cases hr : decFields (dec f env true) tys buf with
          | ok z =>
            obtain ⟨vs, rest'⟩ := z
            rw [hr] at h2; simp only [AdvStruct] at h2
            have hle : gsize env (.ref n) (.struct vs) ≤ buf.length := by simp only [gsize, hn]; omega
            simp only [Res.ok_bind, hle, if_true, Res.pure_eq, Adv, List.length_drop]; omega
          | err => simp [Adv]
          | panic => rw [hr] at h2; simp [AdvStruct] at h2
          | fuel => simp [Adv]
        | msg fds =>
          simp only
          have h2 := ihm n fds buf hn
          cases hr : decMsgBody f env true fds buf with
          | ok z =>
            obtain ⟨v, rest'⟩ := z
            rw [hr] at h2; simp only [AdvBody] at h2
            simp only [Res.ok_bind, if_true]
            split
            · simp only [Res.pure_eq, Adv, List.length_drop]; omega
            · simp [Adv]
          | err => simp [Adv]
          | panic => rw [hr] at h2; simp [AdvBody] at h2
          | fuel => simp [Adv]
        | union brs =>
          simp only
          have h2 := ihu n brs buf hn
          cases hr : decUnionBody f env true brs buf with
          | ok z =>
            obtain ⟨v, rest'⟩ := z
            rw [hr] at h2; simp only [AdvBody] at h2
            simp only [Res.ok_bind, if_true]
            split
            · simp only [Res.pure_eq, Adv, List.length_drop]; omega
            · simp [Adv]
          | err => simp [Adv]
          | panic => rw [hr] at h2; simp [AdvBody] at h2
          | fuel => simp [Adv]

end Bebop
