// Package schema is the harness' own AST of Bebop schemas (deliberately not bebop.File):
// it renders schema text for the real compiler, derives the env/def lines of PROTOCOL.md
// for the model and the driver, and mirrors the Go naming rules of the generator.
package schema

import (
	"fmt"
	"sort"
	"strings"
)

// Primitives lists the 14 primitive type names.
var Primitives = []string{
	"bool", "byte", "uint8", "uint16", "int16", "uint32", "int32", "uint64", "int64",
	"float32", "float64", "string", "guid", "date",
}

// EnumBases lists the integer types an enum may be based on (parse.go readEnum).
var EnumBases = []string{"byte", "uint8", "uint16", "uint32", "uint64", "int16", "int32", "int64"}

// TypeKind discriminates Type.
type TypeKind int

const (
	TPrim  TypeKind = iota // one of Primitives
	TNamed                 // an enum or a record, by name
	TArray
	TMap
)

// Type is a field type.
type Type struct {
	Kind TypeKind
	Name string // TPrim: primitive name, TNamed: definition name
	Key  string // TMap: key primitive
	Elem *Type  // TArray: element, TMap: value
	// AltSyntax renders arrays as array[T] instead of T[].
	AltSyntax bool
}

func Prim(name string) Type       { return Type{Kind: TPrim, Name: name} }
func Named(name string) Type      { return Type{Kind: TNamed, Name: name} }
func Array(elem Type) Type        { e := elem; return Type{Kind: TArray, Elem: &e} }
func Map(key string, v Type) Type { e := v; return Type{Kind: TMap, Key: key, Elem: &e} }

// String renders the type in schema syntax.
func (t Type) String() string {
	switch t.Kind {
	case TPrim, TNamed:
		return t.Name
	case TArray:
		if t.AltSyntax {
			return "array[" + t.Elem.String() + "]"
		}
		return t.Elem.String() + "[]"
	case TMap:
		return "map[" + t.Key + ", " + t.Elem.String() + "]"
	}
	return "?"
}

// EnumOption is one member of an enum. Expr is rendered verbatim (a literal, or for flags
// enums an expression over earlier members).
type EnumOption struct {
	Name       string
	Expr       string
	Deprecated bool
}

// Enum is an enum definition.
type Enum struct {
	Name    string
	Base    string // "" renders without ": base" (uint32)
	Flags   bool
	Options []EnumOption
	// Imported: the enum is defined in a second file (its own Go package) which the schema imports.
	Imported bool
}

// BaseType returns the effective base type.
func (e Enum) BaseType() string {
	if e.Base == "" {
		return "uint32"
	}
	return e.Base
}

// Const is a constant definition. Value is rendered verbatim.
type Const struct {
	Type, Name, Value string
}

// RecKind discriminates Record.
type RecKind int

const (
	Struct RecKind = iota
	Message
	Union
)

func (k RecKind) String() string {
	switch k {
	case Struct:
		return "struct"
	case Message:
		return "msg"
	case Union:
		return "union"
	}
	return "?"
}

// Field is a struct or message field.
type Field struct {
	Name       string
	Type       Type
	Index      int // messages only, 1..255
	Deprecated bool
	Tag        string // optional `key:"value"` rendered as //[tag(...)]
}

// Branch is a union branch: an inline struct or message.
type Branch struct {
	Disc int
	Rec  *Record
	// Deprecated renders `[deprecated("old")]` in front of the branch; a deprecated branch is encoded and decoded
	// like any other.
	Deprecated bool
}

// Record is a struct, message or union.
type Record struct {
	Kind     RecKind
	Name     string
	ReadOnly bool   // structs only
	OpCode   uint32 // 0 = none
	// Imported: the record (top-level only) is defined in the second, imported file; it may refer to
	// primitives and to other imported definitions only.
	Imported bool
	Fields   []Field
	Branches []Branch // unions only
}

// File is a schema file.
type File struct {
	Enums   []Enum
	Consts  []Const
	Records []*Record // top-level, in def order
}

// Clone deep-copies a file.
func (f File) Clone() File {
	out := File{}
	for _, e := range f.Enums {
		e2 := e
		e2.Options = append([]EnumOption(nil), e.Options...)
		out.Enums = append(out.Enums, e2)
	}
	out.Consts = append([]Const(nil), f.Consts...)
	for _, r := range f.Records {
		out.Records = append(out.Records, r.clone())
	}
	return out
}

func (r *Record) clone() *Record {
	r2 := *r
	r2.Fields = nil
	for _, fd := range r.Fields {
		fd.Type = fd.Type.clone()
		r2.Fields = append(r2.Fields, fd)
	}
	r2.Branches = nil
	for _, b := range r.Branches {
		r2.Branches = append(r2.Branches, Branch{Disc: b.Disc, Rec: b.Rec.clone(), Deprecated: b.Deprecated})
	}
	return &r2
}

func (t Type) clone() Type {
	if t.Elem != nil {
		e := t.Elem.clone()
		t.Elem = &e
	}
	return t
}

// Defs flattens the records into def order: every top-level record, each union followed by its
// branch records in ascending discriminator order.
func (f File) Defs() []*Record {
	var out []*Record
	for _, r := range f.Records {
		out = append(out, r)
		if r.Kind == Union {
			for _, b := range r.sortedBranches() {
				out = append(out, b.Rec)
			}
		}
	}
	return out
}

func (r *Record) sortedBranches() []Branch {
	bs := append([]Branch(nil), r.Branches...)
	sort.Slice(bs, func(i, j int) bool { return bs[i].Disc < bs[j].Disc })
	return bs
}

func (r *Record) sortedFields() []Field {
	fs := append([]Field(nil), r.Fields...)
	if r.Kind == Message {
		sort.SliceStable(fs, func(i, j int) bool { return fs[i].Index < fs[j].Index })
	}
	return fs
}

// EnumByName looks an enum up.
func (f File) EnumByName(name string) (Enum, bool) {
	for _, e := range f.Enums {
		if e.Name == name {
			return e, true
		}
	}
	return Enum{}, false
}

// Render prints schema text the real compiler accepts: one item per line.
//
// When some enums are Imported the text has two parts: the importing file, then the line DepMarker, then the
// imported file (with its go_package); pkgbuild writes them as schema.bop and drvdep/dep.bop.
func Render(f File) string {
	var b strings.Builder
	main, dep := f, File{}
	main.Enums, main.Records = nil, nil
	for _, e := range f.Enums {
		if e.Imported {
			dep.Enums = append(dep.Enums, e)
		} else {
			main.Enums = append(main.Enums, e)
		}
	}
	for _, r := range f.Records {
		if r.Imported {
			dep.Records = append(dep.Records, r)
		} else {
			main.Records = append(main.Records, r)
		}
	}
	if len(dep.Enums)+len(dep.Records) > 0 {
		b.WriteString("import \"drvdep/dep.bop\"\n\n")
		b.WriteString(renderOne(main))
		b.WriteString(DepMarker + "\n")
		b.WriteString("const string go_package = \"drvpkg/drvdep\";\n\n")
		b.WriteString(renderOne(dep))
		return b.String()
	}
	return renderOne(f)
}

// DepMarker separates the importing file from the imported one in a rendered two-file schema.
const DepMarker = "// ---- imported file: drvdep/dep.bop ----"

func renderOne(f File) string {
	var b strings.Builder
	for _, e := range f.Enums {
		if e.Flags {
			b.WriteString("[flags]\n")
		}
		if e.Base == "" {
			fmt.Fprintf(&b, "enum %s {\n", e.Name)
		} else {
			fmt.Fprintf(&b, "enum %s : %s {\n", e.Name, e.Base)
		}
		for _, o := range e.Options {
			if o.Deprecated {
				b.WriteString("    [deprecated(\"old\")]\n")
			}
			fmt.Fprintf(&b, "    %s = %s;\n", o.Name, o.Expr)
		}
		b.WriteString("}\n\n")
	}
	for _, c := range f.Consts {
		fmt.Fprintf(&b, "const %s %s = %s;\n", c.Type, c.Name, c.Value)
	}
	if len(f.Consts) > 0 {
		b.WriteString("\n")
	}
	for _, r := range f.Records {
		renderRecord(&b, r, "")
		b.WriteString("\n")
	}
	return b.String()
}

func renderRecord(b *strings.Builder, r *Record, indent string) {
	if indent == "" && r.OpCode != 0 {
		fmt.Fprintf(b, "[opcode(0x%x)]\n", r.OpCode)
	}
	switch r.Kind {
	case Struct:
		if indent == "" {
			if r.ReadOnly {
				b.WriteString("readonly ")
			}
			fmt.Fprintf(b, "struct %s {\n", r.Name)
		}
		for _, fd := range r.Fields {
			renderFieldPrefix(b, fd, indent+"    ", false)
			fmt.Fprintf(b, "%s    %s %s;\n", indent, fd.Type, fd.Name)
		}
	case Message:
		if indent == "" {
			fmt.Fprintf(b, "message %s {\n", r.Name)
		}
		for _, fd := range r.Fields {
			renderFieldPrefix(b, fd, indent+"    ", true)
			fmt.Fprintf(b, "%s    %d -> %s %s;\n", indent, fd.Index, fd.Type, fd.Name)
		}
	case Union:
		fmt.Fprintf(b, "union %s {\n", r.Name)
		for _, br := range r.Branches {
			kw := "struct"
			if br.Rec.Kind == Message {
				kw = "message"
			}
			if br.Deprecated {
				b.WriteString("    [deprecated(\"old\")]\n")
			}
			fmt.Fprintf(b, "    %d -> %s %s {\n", br.Disc, kw, br.Rec.Name)
			renderRecord(b, br.Rec, "    ")
			b.WriteString("    }\n")
		}
	}
	if indent == "" {
		b.WriteString("}\n")
	}
}

func renderFieldPrefix(b *strings.Builder, fd Field, indent string, allowDeprecated bool) {
	if fd.Tag != "" {
		fmt.Fprintf(b, "%s//[tag(%s)]\n", indent, fd.Tag)
	}
	if fd.Deprecated && allowDeprecated {
		fmt.Fprintf(b, "%s[deprecated(\"old\")]\n", indent)
	}
}

// GoTypeName mirrors exposeName of the generator for type names.
func GoTypeName(name string, private bool) string {
	if name == "" {
		return ""
	}
	if private {
		return strings.ToLower(name[:1]) + name[1:]
	}
	return strings.ToUpper(name[:1]) + name[1:]
}

// GoFieldName mirrors the generator: exposeName, except that fields of readonly structs are
// always unexported (unexposeName) and PrivateDefinitions lower-cases everything.
func GoFieldName(name string, private, readOnly bool) string {
	if readOnly || private {
		return strings.ToLower(name[:1]) + name[1:]
	}
	return strings.ToUpper(name[:1]) + name[1:]
}

// GoMakeName mirrors the names of the Make wrappers: kind is "Make", "MustMake" or "New".
func GoMakeName(kind, typeName, suffix string, private bool) string {
	return GoTypeName(kind, private) + GoTypeName(typeName, private) + suffix
}
