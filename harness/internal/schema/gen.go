package schema

import (
	"fmt"
	"math/rand"
	"strings"
)

// Config sizes the random schema generator and excludes shape classes.
type Config struct {
	Enums     int // number of enums (default 4)
	Records   int // number of top-level records (default 12)
	MaxFields int // maximum fields per record (default 6)
	MaxDepth  int // maximum container nesting of a field type (default 3)
	Consts    int // number of consts (default 4)
	// FloatKeyContainers allows map[float32|float64, V] with V an array, map or record.
	// Off by default: a known defect class that is treated separately.
	FloatKeyContainers bool
	NoOpCodes          bool
	NoTags             bool
	NoReadOnly         bool
	NoDeprecated       bool
	// Exclusion knobs for shapes the real generator is known not to compile or run.
	NoEnumArrays   bool // no arrays whose element is an enum
	NoNestedInMsg  bool // message fields get at most one container level
	NoRecordInMaps bool // no records as map values
	// MaxMinNodes bounds the size of the smallest value of a struct (default 60).
	MaxMinNodes int
}

func (c Config) withDefaults() Config {
	if c.Enums == 0 {
		c.Enums = 4
	}
	if c.Records == 0 {
		c.Records = 12
	}
	if c.MaxFields == 0 {
		c.MaxFields = 6
	}
	if c.MaxDepth == 0 {
		c.MaxDepth = 3
	}
	if c.Consts == 0 {
		c.Consts = 4
	}
	if c.MaxMinNodes == 0 {
		c.MaxMinNodes = 60
	}
	return c
}

// typeGen draws random field types.
type typeGen struct {
	rng   *rand.Rand
	cfg   Config
	enums []string
	// minNodes is the node count of the smallest value of each record (for size control).
	minNodes map[string]int
}

// randType draws a type. refs are the record names that may be referenced; budget limits the
// minimal value size that a record reference may add (structs only; <0 = unlimited).
func (g *typeGen) randType(depth int, refs []string, budget int, inMsg bool) (Type, int) {
	r := g.rng.Intn(100)
	switch {
	case r < 40:
		return Prim(Primitives[g.rng.Intn(len(Primitives))]), 1
	case r < 50 && len(g.enums) > 0:
		return Named(g.enums[g.rng.Intn(len(g.enums))]), 1
	case r < 66 && len(refs) > 0:
		name := refs[g.rng.Intn(len(refs))]
		n := g.minNodes[name]
		if n == 0 {
			n = 1
		}
		if budget >= 0 && n > budget {
			return Prim("uint16"), 1
		}
		return Named(name), n
	case r < 84 && depth > 0:
		d := depth - 1
		if inMsg && g.cfg.NoNestedInMsg {
			d = 0
		}
		for try := 0; try < 8; try++ {
			el, _ := g.randType(d, refs, -1, inMsg)
			if g.cfg.NoEnumArrays && el.Kind == TNamed && g.isEnum(el.Name) {
				continue
			}
			t := Array(el)
			t.AltSyntax = g.rng.Intn(4) == 0
			return t, 1
		}
		return Array(Prim("int32")), 1
	case depth > 0:
		key := Primitives[g.rng.Intn(len(Primitives))]
		d := depth - 1
		if inMsg && g.cfg.NoNestedInMsg {
			d = 0
		}
		for try := 0; try < 8; try++ {
			v, _ := g.randType(d, refs, -1, inMsg)
			simple := v.Kind == TPrim || (v.Kind == TNamed && g.isEnum(v.Name))
			if (key == "float32" || key == "float64") && !g.cfg.FloatKeyContainers && !simple {
				continue
			}
			if g.cfg.NoRecordInMaps && v.Kind == TNamed && !g.isEnum(v.Name) {
				continue
			}
			return Map(key, v), 1
		}
		return Map(key, Prim("string")), 1
	}
	return Prim(Primitives[g.rng.Intn(len(Primitives))]), 1
}

func (g *typeGen) isEnum(name string) bool {
	for _, e := range g.enums {
		if e == name {
			return true
		}
	}
	return false
}

func baseRange(base string) (signed bool, bits int) {
	switch base {
	case "byte", "uint8":
		return false, 8
	case "uint16":
		return false, 16
	case "uint32", "":
		return false, 32
	case "uint64":
		return false, 64
	case "int16":
		return true, 16
	case "int32":
		return true, 32
	case "int64":
		return true, 64
	}
	return false, 32
}

func randEnum(rng *rand.Rand, name string, base string, flags bool) Enum {
	e := Enum{Name: name, Base: base, Flags: flags}
	n := 1 + rng.Intn(5)
	signed, bits := baseRange(base)
	if flags {
		exprs := []string{"0", "1", "2", "0x04", "1 << 3", "%0 | %1", "(%1 | %2) & 0x0F"}
		for i := 0; i < n && i < len(exprs); i++ {
			ex := exprs[i]
			for j := 0; j < i; j++ {
				ex = strings.ReplaceAll(ex, fmt.Sprintf("%%%d", j), e.Options[j].Name)
			}
			if strings.Contains(ex, "%") {
				ex = fmt.Sprintf("%d", 1<<uint(i))
			}
			e.Options = append(e.Options, EnumOption{Name: fmt.Sprintf("%sO%d", name, i), Expr: ex})
		}
		return e
	}
	used := map[int64]bool{}
	for i := 0; i < n; i++ {
		var v int64
		for {
			lim := int64(1) << uint(minInt(bits-1, 20))
			v = rng.Int63n(lim)
			if i == 0 && rng.Intn(3) == 0 {
				v = 0
			}
			if !signed && bits >= 8 && rng.Intn(5) == 0 {
				v = (int64(1) << uint(minInt(bits, 62))) - 1 - int64(rng.Intn(3))
			}
			if !used[v] {
				break
			}
		}
		used[v] = true
		expr := fmt.Sprintf("%d", v)
		if rng.Intn(4) == 0 {
			expr = fmt.Sprintf("0x%x", v)
		}
		e.Options = append(e.Options, EnumOption{Name: fmt.Sprintf("%sO%d", name, i), Expr: expr, Deprecated: rng.Intn(8) == 0})
	}
	return e
}

func minInt(a, b int) int {
	if a < b {
		return a
	}
	return b
}

func randConsts(rng *rand.Rand, n int) []Const {
	pool := []Const{
		{"int32", "", "-5"}, {"uint8", "", "200"}, {"uint64", "", "0xffffffffffff"}, {"int16", "", "12"},
		{"float32", "", "1.5"}, {"float64", "", "inf"}, {"float64", "", "-inf"}, {"float64", "", "nan"},
		{"float64", "", "3"}, {"bool", "", "true"}, {"bool", "", "false"}, {"string", "", `"hello world"`},
		{"guid", "", `"e2722bf7-022a-496a-9f01-7029d7d5563d"`}, {"byte", "", "7"},
	}
	var out []Const
	for i := 0; i < n; i++ {
		c := pool[rng.Intn(len(pool))]
		c.Name = fmt.Sprintf("c%d", i)
		out = append(out, c)
	}
	return out
}

// Random produces a valid random schema: unique names (T<n> records, E<n> enums, f<n> fields,
// c<n> consts), no recursive structs, struct-like contexts (struct fields, union branch struct
// fields) only reference earlier top-level records, message fields reference any top-level
// record (so recursion only goes through optional message fields).
func Random(rng *rand.Rand, cfg Config) File {
	cfg = cfg.withDefaults()
	f := File{}
	g := &typeGen{rng: rng, cfg: cfg, minNodes: map[string]int{}}
	for i := 0; i < cfg.Enums; i++ {
		// the first enums walk through every base type, later ones are random
		base := EnumBases[i%len(EnumBases)]
		if i >= len(EnumBases) {
			base = EnumBases[rng.Intn(len(EnumBases))]
			if rng.Intn(6) == 0 {
				base = ""
			}
		}
		name := fmt.Sprintf("E%d", i)
		f.Enums = append(f.Enums, randEnum(rng, name, base, rng.Intn(4) == 0))
		g.enums = append(g.enums, name)
	}
	f.Consts = randConsts(rng, cfg.Consts)

	// Pre-assign names and kinds of the top-level records so that messages can refer forward.
	kinds := make([]RecKind, cfg.Records)
	names := make([]string, cfg.Records)
	for i := range kinds {
		switch r := rng.Intn(100); {
		case r < 40:
			kinds[i] = Struct
		case r < 75:
			kinds[i] = Message
		default:
			kinds[i] = Union
		}
		names[i] = fmt.Sprintf("T%d", i)
	}
	nextName := cfg.Records
	opcode := uint32(0x10000000 + rng.Intn(1<<20))
	for i := range kinds {
		earlier := names[:i]
		rec := &Record{Kind: kinds[i], Name: names[i]}
		if !cfg.NoOpCodes && rng.Intn(4) == 0 {
			opcode++
			rec.OpCode = opcode
		}
		switch kinds[i] {
		case Struct:
			rec.ReadOnly = !cfg.NoReadOnly && rng.Intn(4) == 0
			g.fillStruct(rec, earlier)
		case Message:
			g.fillMessage(rec, names)
			g.minNodes[rec.Name] = 1
		case Union:
			nb := 1 + rng.Intn(4)
			disc := 0
			best := 1 << 30
			for b := 0; b < nb; b++ {
				disc += 1 + rng.Intn(60)
				if disc > 255 {
					break
				}
				br := &Record{Name: fmt.Sprintf("T%d", nextName)}
				nextName++
				if rng.Intn(2) == 0 {
					br.Kind = Struct
					g.fillStruct(br, earlier)
				} else {
					br.Kind = Message
					g.fillMessage(br, names)
					g.minNodes[br.Name] = 1
				}
				if g.minNodes[br.Name] < best {
					best = g.minNodes[br.Name]
				}
				rec.Branches = append(rec.Branches, Branch{Disc: disc, Rec: br})
			}
			g.minNodes[rec.Name] = 1 + best
		}
		f.Records = append(f.Records, rec)
	}
	return f
}

func (g *typeGen) fillStruct(rec *Record, refs []string) {
	n := 0
	if g.rng.Intn(12) != 0 {
		n = 1 + g.rng.Intn(g.cfg.MaxFields)
	}
	total := 1
	for j := 0; j < n; j++ {
		t, nodes := g.randType(g.cfg.MaxDepth, refs, g.cfg.MaxMinNodes-total, false)
		total += nodes
		fd := Field{Name: fmt.Sprintf("f%d", j), Type: t}
		if !g.cfg.NoTags && g.rng.Intn(5) == 0 {
			fd.Tag = fmt.Sprintf(`json:"f%d,omitempty"`, j)
		}
		rec.Fields = append(rec.Fields, fd)
	}
	g.minNodes[rec.Name] = total
}

func (g *typeGen) fillMessage(rec *Record, refs []string) {
	n := 0
	if g.rng.Intn(12) != 0 {
		n = 1 + g.rng.Intn(g.cfg.MaxFields)
	}
	idx := 0
	for j := 0; j < n; j++ {
		idx += 1 + g.rng.Intn(3)
		if g.rng.Intn(10) == 0 {
			idx += g.rng.Intn(100)
		}
		if idx > 255 {
			break
		}
		t, _ := g.randType(g.cfg.MaxDepth, refs, -1, true)
		fd := Field{Name: fmt.Sprintf("f%d", j), Type: t, Index: idx}
		fd.Deprecated = !g.cfg.NoDeprecated && g.rng.Intn(7) == 0
		if !g.cfg.NoTags && g.rng.Intn(5) == 0 {
			fd.Tag = fmt.Sprintf(`json:"f%d"`, j)
		}
		rec.Fields = append(rec.Fields, fd)
	}
}

// EvolveConfig tunes Evolve.
type EvolveConfig struct {
	Prob        float64 // probability that a message is evolved (default 0.7)
	MaxNew      int     // maximum new fields per message (default 3)
	Undeprecate float64 // probability that a field deprecated in v1 is live in v2 (default 0.5); -1: every other one, starting with the first
	Gen         Config  // shape restrictions for the types of new fields
}

// EvolveInfo relates a v2 schema to the v1 schema it was derived from.
type EvolveInfo struct {
	// DefMap maps every def index of v2 to the def index of v1 (the identity: Evolve keeps
	// all definitions and their order).
	DefMap []int
	// Added lists, per message name, the field indices that only v2 knows.
	Added map[string][]int
	// Undeprecated lists, per message name, the indices deprecated in v1 and live in v2.
	Undeprecated map[string][]int
}

// Evolve returns a "newer version" of v1: the same definitions, some messages (top-level or
// union branches) with extra fields at fresh, higher indices, and some fields that are
// deprecated in v1 not deprecated in v2.
func Evolve(rng *rand.Rand, v1 File, cfg EvolveConfig) (File, EvolveInfo) {
	if cfg.Prob == 0 {
		cfg.Prob = 0.7
	}
	if cfg.MaxNew == 0 {
		cfg.MaxNew = 3
	}
	if cfg.Undeprecate == 0 {
		cfg.Undeprecate = 0.5
	}
	gcfg := cfg.Gen.withDefaults()
	v2 := v1.Clone()
	g := &typeGen{rng: rng, cfg: gcfg, minNodes: map[string]int{}}
	for _, e := range v2.Enums {
		g.enums = append(g.enums, e.Name)
	}
	var names []string
	for _, r := range v2.Records {
		names = append(names, r.Name)
	}
	info := EvolveInfo{Added: map[string][]int{}, Undeprecated: map[string][]int{}}
	fresh := 0
	evolve := func(r *Record) {
		if r.Kind != Message {
			return
		}
		nthDeprecated := 0
		for i := range r.Fields {
			if !r.Fields[i].Deprecated {
				continue
			}
			nthDeprecated++
			if (cfg.Undeprecate < 0 && nthDeprecated%2 == 1) || (cfg.Undeprecate >= 0 && rng.Float64() < cfg.Undeprecate) {
				r.Fields[i].Deprecated = false
				info.Undeprecated[r.Name] = append(info.Undeprecated[r.Name], r.Fields[i].Index)
			}
		}
		if rng.Float64() >= cfg.Prob {
			return
		}
		maxIdx := 0
		for _, fd := range r.Fields {
			if fd.Index > maxIdx {
				maxIdx = fd.Index
			}
		}
		n := 1 + rng.Intn(cfg.MaxNew)
		for j := 0; j < n; j++ {
			maxIdx += 1 + rng.Intn(3)
			if maxIdx > 255 {
				break
			}
			t, _ := g.randType(gcfg.MaxDepth, names, -1, true)
			r.Fields = append(r.Fields, Field{Name: fmt.Sprintf("g%d", fresh), Type: t, Index: maxIdx})
			fresh++
			info.Added[r.Name] = append(info.Added[r.Name], maxIdx)
		}
	}
	for _, r := range v2.Records {
		evolve(r)
		for _, b := range r.Branches {
			evolve(b.Rec)
		}
	}
	for i := range v2.Defs() {
		info.DefMap = append(info.DefMap, i)
	}
	return v2, info
}

// EvolveBase is a deterministic v1 schema in which the message Ev (and the union branch
// message EvB) occur in the six nesting contexts of C04: top level, struct field followed by
// more fields, array element, map value, message field, union branch.
func EvolveBase() File {
	ev := &Record{Kind: Message, Name: "Ev", Fields: []Field{
		{Name: "a", Index: 1, Type: Prim("uint32")},
		{Name: "b", Index: 2, Type: Prim("string")},
		{Name: "c", Index: 4, Type: Array(Prim("int16")), Deprecated: true},
		{Name: "d", Index: 5, Type: Prim("string"), Deprecated: true},
	}}
	evEmpty := &Record{Kind: Message, Name: "Ev0"}
	inStruct := &Record{Kind: Struct, Name: "InStruct", Fields: []Field{
		{Name: "before", Type: Prim("uint16")},
		{Name: "m", Type: Named("Ev")},
		{Name: "after", Type: Prim("uint32")},
		{Name: "m0", Type: Named("Ev0")},
		{Name: "tail", Type: Prim("string")},
	}}
	inArray := &Record{Kind: Struct, Name: "InArray", Fields: []Field{
		{Name: "ms", Type: Array(Named("Ev"))},
		{Name: "after", Type: Prim("uint32")},
		{Name: "mss", Type: Array(Array(Named("Ev0")))},
		{Name: "tail", Type: Prim("guid")},
	}}
	inMap := &Record{Kind: Struct, Name: "InMap", Fields: []Field{
		{Name: "mm", Type: Map("uint32", Named("Ev"))},
		{Name: "after", Type: Prim("uint32")},
		{Name: "ma", Type: Map("string", Array(Named("Ev")))},
		{Name: "tail", Type: Prim("date")},
	}}
	inMsg := &Record{Kind: Message, Name: "InMsg", Fields: []Field{
		{Name: "m", Index: 1, Type: Named("Ev")},
		{Name: "after", Index: 2, Type: Prim("uint32")},
		{Name: "ms", Index: 3, Type: Array(Named("Ev"))},
		{Name: "self", Index: 5, Type: Named("InMsg")},
		{Name: "tail", Index: 9, Type: Prim("string")},
	}}
	inUnion := &Record{Kind: Union, Name: "InUnion", Branches: []Branch{
		{Disc: 1, Rec: &Record{Kind: Message, Name: "EvB", Fields: []Field{
			{Name: "x", Index: 1, Type: Prim("int64")},
			{Name: "y", Index: 3, Type: Named("Ev")},
		}}},
		{Disc: 2, Rec: &Record{Kind: Struct, Name: "EvS", Fields: []Field{
			{Name: "m", Type: Named("Ev")},
			{Name: "after", Type: Prim("uint8")},
		}}},
	}}
	// a message declared inline as a union branch and used by a sibling branch (struct and message), with a field after it
	sibUnion := &Record{Kind: Union, Name: "SibUnion", Branches: []Branch{
		{Disc: 1, Rec: &Record{Kind: Message, Name: "SibEv", Fields: []Field{
			{Name: "a", Index: 1, Type: Prim("uint32")},
		}}},
		{Disc: 2, Rec: &Record{Kind: Struct, Name: "SibPair", Fields: []Field{
			{Name: "m", Type: Named("SibEv")},
			{Name: "tail", Type: Prim("uint32")},
			{Name: "ms", Type: Array(Named("SibEv"))},
			{Name: "end", Type: Prim("uint16")},
		}}},
		{Disc: 3, Rec: &Record{Kind: Message, Name: "SibMsg", Fields: []Field{
			{Name: "m", Index: 1, Type: Named("SibEv")},
			{Name: "tail", Index: 2, Type: Prim("uint32")},
			{Name: "mm", Index: 3, Type: Map("uint8", Named("SibEv"))},
			{Name: "end", Index: 4, Type: Prim("string")},
		}}},
	}}
	unionHolder := &Record{Kind: Struct, Name: "HoldsUnion", Fields: []Field{
		{Name: "u", Type: Named("InUnion")},
		{Name: "after", Type: Prim("uint32")},
		{Name: "us", Type: Array(Named("InUnion"))},
		{Name: "tail", Type: Prim("uint16")},
	}}
	// one level deeper: records that hold the evolved message are themselves nested
	outer := &Record{Kind: Struct, Name: "Outer", Fields: []Field{
		{Name: "s", Type: Named("InStruct")},
		{Name: "after", Type: Prim("uint32")},
		{Name: "ss", Type: Array(Named("InStruct"))},
		{Name: "a", Type: Named("InArray")},
		{Name: "mid", Type: Prim("uint16")},
		{Name: "mp", Type: Map("uint8", Named("InMap"))},
		{Name: "u", Type: Named("HoldsUnion")},
		{Name: "tail", Type: Prim("string")},
	}}
	outerMsg := &Record{Kind: Message, Name: "OuterMsg", Fields: []Field{
		{Name: "s", Index: 1, Type: Named("InStruct")},
		{Name: "after", Index: 2, Type: Prim("uint32")},
		{Name: "o", Index: 3, Type: Named("Outer")},
		{Name: "tail", Index: 4, Type: Prim("string")},
	}}
	return File{Records: []*Record{ev, evEmpty, inStruct, inArray, inMap, inMsg, inUnion, unionHolder, outer, outerMsg, sibUnion}}
}

// EvolveImportedPair is a fixed (v1, v2) pair in which the evolved message lives in the IMPORTED file (generated
// separately, as its own Go package) and is nested in records of the importing file, with something after it.
func EvolveImportedPair() (File, File) {
	mk := func(v2 bool) File {
		ev := &Record{Kind: Message, Name: "ImpEv", Imported: true, Fields: []Field{
			{Name: "a", Index: 1, Type: Prim("uint32")},
			{Name: "b", Index: 2, Type: Prim("string")},
		}}
		if v2 {
			ev.Fields = append(ev.Fields,
				Field{Name: "extra", Index: 3, Type: Prim("string")},
				Field{Name: "more", Index: 7, Type: Array(Prim("uint32"))})
		}
		return File{Records: []*Record{
			ev,
			{Kind: Struct, Name: "HoldsImp", Fields: []Field{
				{Name: "before", Type: Prim("uint16")},
				{Name: "m", Type: Named("ImpEv")},
				{Name: "after", Type: Prim("uint32")},
				{Name: "ms", Type: Array(Named("ImpEv"))},
				{Name: "tail", Type: Prim("uint16")},
			}},
			{Kind: Message, Name: "MsgImp", Fields: []Field{
				{Name: "m", Index: 1, Type: Named("ImpEv")},
				{Name: "after", Index: 2, Type: Prim("uint32")},
				{Name: "mm", Index: 3, Type: Map("uint8", Named("ImpEv"))},
				{Name: "tail", Index: 4, Type: Prim("string")},
			}},
			{Kind: Union, Name: "UnionImp", Branches: []Branch{
				{Disc: 1, Rec: &Record{Kind: Struct, Name: "UnionImpS", Fields: []Field{{Name: "m", Type: Named("ImpEv")}, {Name: "after", Type: Prim("uint8")}}}},
			}},
		}}
	}
	return mk(false), mk(true)
}
