#!/usr/bin/env python3
"""Regenerate MANIFEST.json from tools/manifest.static.json (claimed checks) and properties.jsonl."""
import json, os
ROOT = os.path.dirname(os.path.dirname(os.path.abspath(__file__)))
props = [json.loads(l)["id"] for l in open(os.path.join(ROOT, "properties.jsonl"))]
st = json.load(open(os.path.join(ROOT, "tools", "manifest.static.json")))
checks = []
for pid in props:
    c = st["checks"].get(pid)
    if not c:
        continue
    checks.append({
        "property_id": pid,
        "quick_cmd": "./check %s --tier quick" % pid,
        "thorough_cmd": "./check %s --tier thorough" % pid,
        "evidence_file": "/verif/evidence/%s.json" % pid,
        "replay_cmd_template": "./check replay {path}",
        "engine": c["engine"],
        "level_claimed": {"category": "proof", "text": c["text"], "design_ref": c.get("design_ref", "DESIGN.md §7")},
        "level_note": c["note"],
        "technique": c.get("technique", "Lean 4 theorems over an executable model; model tied to /repo by regenerated facts and differential correspondence"),
    })
na = [{"property_id": p, "reason": st["not_applicable"].get(p, "check under construction; not claimed yet")}
      for p in props if p not in st["checks"]]
m = {"version": 1, "setup_cmd": "./setup.sh",
     "hooks": {"guard": "verif",
               "enable": "no hooks are compiled into /repo: every tie goes through exported API, generated code and the CLI binaries (the tag `verif` is reserved)",
               "baseline_off_cmd": "/verif/tools/suite.sh /repo", "source_commits": [], "add_only": True},
     "engines": st["engines"], "checks": checks, "not_applicable": na, "notes": st["notes"]}
json.dump(m, open(os.path.join(ROOT, "MANIFEST.json"), "w"), indent=1)
print("claimed:", [c["property_id"] for c in checks], "not claimed:", [n["property_id"] for n in na])
