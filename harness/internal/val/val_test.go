package val

import (
	"math/rand"
	"strings"
	"testing"

	"verif/harness/internal/schema"
)

func TestParseStringRoundTrip(t *testing.T) {
	for seed := int64(0); seed < 30; seed++ {
		rng := rand.New(rand.NewSource(seed))
		f := schema.Random(rng, schema.Config{FloatKeyContainers: true})
		env := schema.Compile(f)
		for di := range env.Defs {
			for n := 0; n < 20; n++ {
				v := RandomRecord(rng, env, di, GenConfig{SetDeprecated: n%2 == 0, NoBig: n%5 != 0})
				s := v.String()
				w, err := ParseString(s)
				if err != nil {
					t.Fatalf("parse %q: %v", s, err)
				}
				if w.String() != s {
					t.Fatalf("round trip changed %q into %q", s, w.String())
				}
				p := Permute(rng, v)
				if p.CanonString() != v.CanonString() {
					t.Fatalf("Canon is not permutation invariant:\n%s\n%s", v.CanonString(), p.CanonString())
				}
				if v.HasMultiMap() != p.HasMultiMap() {
					t.Fatal("HasMultiMap changed under permutation")
				}
				st := StripDeprecated(env, schema.Ty{K: schema.TyRef, Ref: di}, v)
				if n%2 == 1 && st.String() != s {
					t.Fatalf("value generated without deprecated fields changed by StripDeprecated")
				}
			}
		}
	}
}

func TestCanonSortsByPrintedKey(t *testing.T) {
	v, err := ParseString("map 3 n 4 10 str 61 n 4 9 str 62 n 4 100 str 63")
	if err != nil {
		t.Fatal(err)
	}
	got := v.CanonString()
	want := "map 3 n 4 10 str 61 n 4 100 str 63 n 4 9 str 62"
	if got != want {
		t.Fatalf("got %q want %q", got, want)
	}
	if _, err := ParseString("un 256 st 0"); err != nil {
		t.Fatal(err)
	}
	if _, err := ParseString("arr 2 n 1 1"); err == nil || !strings.Contains(err.Error(), "val:") {
		t.Fatal("truncated value accepted")
	}
}

func TestRestrict(t *testing.T) {
	v1 := schema.EvolveBase()
	v2, info := schema.Evolve(rand.New(rand.NewSource(5)), v1, schema.EvolveConfig{Prob: 1})
	e1, e2 := schema.Compile(v1), schema.Compile(v2)
	rng := rand.New(rand.NewSource(6))
	dropped := 0
	for di := range e2.Defs {
		for n := 0; n < 50; n++ {
			v := RandomRecord(rng, e2, di, GenConfig{PresentProb: 0.9})
			r := Restrict(e1, e2, schema.Ty{K: schema.TyRef, Ref: di}, v)
			if r.String() != v.String() {
				dropped++
			}
			// the restricted value must be well-formed for v1: re-restricting is the identity
			if rr := Restrict(e1, e1, schema.Ty{K: schema.TyRef, Ref: di}, r); rr.String() != r.String() {
				t.Fatalf("restricted value still holds fields unknown to v1: %s", r.String())
			}
		}
	}
	if dropped == 0 || len(info.Added) == 0 {
		t.Fatal("Restrict never dropped anything")
	}
}
