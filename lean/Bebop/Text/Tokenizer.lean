/-
  Tokenizer: operational model of tokenize.go / token_tree.go over bufio.

  The input is the byte sequence the reader will deliver, followed by EOF or by a persistent I/O error
  (`ioFail`). bufio is modelled by what the tokenizer uses of it: ReadByte, UnreadByte (legal only right
  after a successful ReadByte — otherwise bufio refuses and tokenize.go panics), ReadRune / UnreadRune,
  ReadBytes('\n').  Identifiers are modelled for ASCII only: a byte ≥ 0x80 where an identifier could
  start or continue makes the model decline (`nonAscii`), because unicode.IsLetter is not modelled.
  Bytes ≥ 0x80 inside strings and comments are ordinary.
-/
import Bebop.Bytes
import Bebop.Generated.TextFacts

namespace Bebop.Text

inductive TK where
  | invalid | ident | intLit | floatLit | strLit
  | kReadOnly | kStruct | kMessage | kEnum | kDeprecated | kOpCode | kMap | kArray | kUnion | kConst
  | kInf | negInf | kNaN | kTrue | kFalse | kImport | kFlags
  | openSquare | closeSquare | openParen | closeParen | openCurly | closeCurly | semicolon | comma
  | equals | arrow | lineComment | blockComment | vbar | amp | dblLeft | dblRight | colon | newline
  deriving DecidableEq, Repr, Inhabited

structure Token where
  kind : TK := .invalid
  concrete : List Byte := []
  deriving DecidableEq, Repr, Inhabited

/-- Error classes the tokenizer records (`errors.Is` is all `Next` looks at). -/
inductive TErr where
  | ueof | io | other
  deriving DecidableEq, Repr, Inhabited

structure TR where
  inp : List Byte                 -- bytes the reader has not delivered yet
  ioFail : Bool := false          -- what follows them: EOF (false) or a persistent I/O error (true)
  last : Option Byte := none      -- bufio's lastByte: what UnreadByte would put back
  errs : List TErr := []          -- tr.errs, oldest first
  nextTok : Token := {}
  lastTok : Token := {}
  keep : Bool := false            -- keepNextToken
  panicked : Bool := false        -- unreadByte panicked
  nonAscii : Bool := false        -- the model declines: identifier with a non-ASCII byte
  deriving Repr, Inhabited

def b (c : Char) : Byte := UInt8.ofNat c.toNat

inductive Rd where
  | byte (c : Byte)
  | eof
  | ioerr

/-- tr.readByte -/
def readByte (t : TR) : Rd × TR :=
  match t.inp with
  | c :: rest => (.byte c, { t with inp := rest, last := some c })
  | [] => (if t.ioFail then .ioerr else .eof, t)

/-- tr.unreadByte: panics unless the previous bufio operation was a successful ReadByte. -/
def unreadByte (t : TR) : TR :=
  match t.last with
  | some c => { t with inp := c :: t.inp, last := none }
  | none => { t with panicked := true }

def addErr (t : TR) (e : TErr) : TR := { t with errs := t.errs ++ [e] }

def setNext (t : TR) (tk : Token) : TR := { t with lastTok := t.nextTok, nextTok := tk }

def isNumeric (c : Byte) : Bool := 0x30 ≤ c.toNat && c.toNat ≤ 0x39
def isHexLetter (c : Byte) : Bool := (0x61 ≤ c.toNat && c.toNat ≤ 0x66) || (0x41 ≤ c.toNat && c.toNat ≤ 0x46)
def isAsciiLetter (c : Byte) : Bool := (0x61 ≤ c.toNat && c.toNat ≤ 0x7a) || (0x41 ≤ c.toNat && c.toNat ≤ 0x5a)

def keywordKind (s : List Byte) : Option TK :=
  let str := String.ofList (s.map (fun c => Char.ofNat c.toNat))
  Facts.keywordTable.lookup str |>.bind fun k =>
    match k with
    | "ReadOnly" => some .kReadOnly | "Message" => some .kMessage | "Struct" => some .kStruct
    | "Enum" => some .kEnum | "Deprecated" => some .kDeprecated | "OpCode" => some .kOpCode
    | "Map" => some .kMap | "Array" => some .kArray | "Union" => some .kUnion | "Const" => some .kConst
    | "Inf" => some .kInf | "NaN" => some .kNaN | "True" => some .kTrue | "False" => some .kFalse
    | "Import" => some .kImport | "Flags" => some .kFlags
    | _ => none

def simpleKindOfName : String → Option TK
  | "Equals" => some .equals | "OpenSquare" => some .openSquare | "CloseSquare" => some .closeSquare
  | "OpenCurly" => some .openCurly | "CloseCurly" => some .closeCurly | "OpenParen" => some .openParen
  | "CloseParen" => some .closeParen | "Comma" => some .comma | "Semicolon" => some .semicolon
  | "Newline" => some .newline | "VerticalBar" => some .vbar | "Ampersand" => some .amp | "Colon" => some .colon
  | _ => none

/-- The one-byte simple terminals, straight from the regenerated `tt.add` table. -/
def singleByteKind (c : Byte) : Option TK :=
  (Facts.tokenTreeAdds.find? (fun e => e.1 == [c.toNat])).bind (fun e => simpleKindOfName e.2)

/-- The part of the token tree that is NOT a one-byte simple terminal; the model below hard-codes exactly
    this shape (and the skip set), and `tokenTree_as_modelled` re-checks it against the regenerated table. -/
def multiByteShape : List (List Nat × String) :=
  [([45, 62], "Arrow"), ([62, 62], "DoubleCaretRight"), ([60, 60], "DoubleCaretLeft"),
   ([45, 105, 110, 102], "NegativeInf"), ([34], "stringLiteralToken"), ([47, 47], "lineCommentToken"),
   ([47, 42], "blockCommentToken")] ++
  (List.range 10).flatMap (fun d => [([45, 48 + d], "numberToken"), ([48 + d], "numberToken")])

/-- How `tokenTree.findFirst` ended: a token was built; no byte-driven token starts here; or the input
    ended cleanly before any token (Go records io.EOF there, and `Next` removes it again at once, so the
    model never stores it). -/
inductive FR where
  | tok | no | eof
  deriving DecidableEq, Repr, Inhabited

/-- Result of a token builder: the token (possibly `{}`), and whether `find` reports `ok`. -/
abbrev Built := Token × Bool × TR

/-- numberToken: `conc` is what was matched so far ("7" or "-7"). Structural on the remaining input. -/
def numberLoop : Nat → TR → List Byte → TK → (second hex decimal invalidLast : Bool) → Token × TR
  | 0, t, conc, kind, _, _, _, _ => ({ kind := kind, concrete := conc }, t)   -- unreachable: fuel = |inp| + 1
  | fuel+1, t, conc, kind, second, hex, decimal, invalidLast =>
    match readByte t with
    | (.eof, t1) =>
      if invalidLast then ({}, addErr t1 .ueof) else ({ kind := kind, concrete := conc }, t1)
    | (.ioerr, t1) => ({}, addErr t1 .io)
    | (.byte c, t1) =>
      if second && c == b 'x' then numberLoop fuel t1 (conc ++ [c]) kind false true decimal true
      else if c == b '.' then
        if decimal then ({}, addErr t1 .other)
        else numberLoop fuel t1 (conc ++ [c]) .floatLit false hex true true
      else if isNumeric c then numberLoop fuel t1 (conc ++ [c]) kind false hex decimal false
      else if hex && isHexLetter c then numberLoop fuel t1 (conc ++ [c]) kind false hex decimal false
      else if c == b 'e' then numberLoop fuel t1 (conc ++ [c]) kind false hex decimal true
      else if invalidLast then
        ({ kind := kind, concrete := conc ++ [0] }, addErr t1 .other)
      else
        let t2 := unreadByte t1
        let tk : Token := { kind := kind, concrete := conc }
        (tk, setNext t2 tk)

def numberToken (t : TR) (conc : List Byte) : Token × TR :=
  numberLoop (t.inp.length + 1) t conc .intLit true false false false

/-- lineCommentToken: ReadBytes('\n'). -/
def lineCommentToken (t : TR) (conc : List Byte) : Token × TR :=
  let line := t.inp.takeWhile (· != 10)
  let rest := t.inp.drop line.length
  match rest with
  | nl :: rest' => ({ kind := .lineComment, concrete := conc ++ line ++ [nl] }, { t with inp := rest', last := some nl })
  | [] =>
    let t1 := { t with inp := [], last := (line.getLast?).orElse (fun _ => t.last) }
    if t.ioFail then ({}, addErr t1 .io)
    else ({ kind := .lineComment, concrete := conc ++ line }, t1)

/-- skipFollowingWhitespace (after the fix: nothing is unread when the read failed). -/
def skipWs : Nat → TR → TR
  | 0, t => t
  | fuel+1, t =>
    match readByte t with
    | (.byte c, t1) => if c == 10 || c == 32 || c == 9 || c == 13 then skipWs fuel t1 else unreadByte t1
    | (_, t1) => t1

def blockLoop : Nat → TR → List Byte → Byte → Token × TR
  | 0, t, conc, _ => ({ kind := .blockComment, concrete := conc }, t)
  | fuel+1, t, conc, lastB =>
    match readByte t with
    | (.eof, t1) => ({}, addErr t1 .ueof)
    | (.ioerr, t1) => ({}, addErr t1 .io)
    | (.byte c, t1) =>
      if lastB == b '*' && c == b '/' then
        ({ kind := .blockComment, concrete := conc ++ [c] }, skipWs (t1.inp.length + 1) t1)
      else blockLoop fuel t1 (conc ++ [c]) c

def blockCommentToken (t : TR) (conc : List Byte) : Token × TR :=
  blockLoop (t.inp.length + 1) t conc 0

def stringLoop : Nat → TR → List Byte → Bool → Token × TR
  | 0, t, conc, _ => ({ kind := .strLit, concrete := conc }, t)
  | fuel+1, t, conc, escaping =>
    match readByte t with
    | (.eof, t1) => ({}, addErr t1 .ueof)
    | (.ioerr, t1) => ({}, addErr t1 .io)
    | (.byte c, t1) =>
      if c == b '"' && !escaping then ({ kind := .strLit, concrete := conc ++ [c] }, t1)
      else stringLoop fuel t1 (conc ++ [c]) (c == b '\\' && !escaping)

def stringLiteralToken (t : TR) (conc : List Byte) : Token × TR :=
  stringLoop (t.inp.length + 1) t conc false

def simple (k : TK) (conc : List Byte) (t : TR) : Token × FR × TR := ({ kind := k, concrete := conc }, .tok, t)

/-- A non-root node of the token tree expecting exactly one of `opts` (sorted as nextValidBytes sorts
    them); each option continues with `k`. EOF: UnexpectedEOF error, not ok. Unexpected byte: record an
    error and greedily take the first option. -/
def expectOne (t : TR) (conc : List Byte) (opts : List (Byte × (TR → List Byte → Token × FR × TR))) :
    Token × FR × TR :=
  match readByte t with
  | (.eof, t1) => ({}, .no, addErr t1 .ueof)
  | (.ioerr, t1) => ({}, .no, addErr t1 .io)
  | (.byte c, t1) =>
    match opts.find? (·.1 == c) with
    | some (_, k) => k t1 (conc ++ [c])
    | none =>
      match opts with
      | (c0, k) :: _ => k (addErr t1 .other) (conc ++ [c0])
      | [] => ({}, .no, t1)

def wrap (f : TR → List Byte → Token × TR) : TR → List Byte → Token × FR × TR :=
  fun t conc => let (tk, t') := f t conc; (tk, .tok, t')

/-- tokenTree.findFirst: skip blanks at the root, then dispatch on the first byte. `none` for the token
    means "no byte-driven token starts here" (ok = false, no error added). -/
def findFirst : Nat → TR → Token × FR × TR
  | 0, t => ({}, .no, t)
  | fuel+1, t =>
    match readByte t with
    | (.eof, t1) => ({}, .eof, t1)
    | (.ioerr, t1) => ({}, .no, addErr t1 .io)
    | (.byte c, t1) =>
      if Facts.tokenTreeSkips.contains c.toNat then findFirst fuel t1
      else
      match singleByteKind c with
      | some k => simple k [c] t1
      | none =>
      if c == b '"' then wrap stringLiteralToken t1 [c]
      else if isNumeric c then wrap numberToken t1 [c]
      else if c == b '>' then expectOne t1 [c] [(b '>', fun t conc => simple .dblRight conc t)]
      else if c == b '<' then expectOne t1 [c] [(b '<', fun t conc => simple .dblLeft conc t)]
      else if c == b '/' then
        expectOne t1 [c] [(b '*', wrap blockCommentToken), (b '/', wrap lineCommentToken)]
      else if c == b '-' then
        -- successors of '-': '>' , 'i', digits; sorted: ">" < "i" < "number"
        match readByte t1 with
        | (.eof, t2) => ({}, .no, addErr t2 .ueof)
        | (.ioerr, t2) => ({}, .no, addErr t2 .io)
        | (.byte d, t2) =>
          if isNumeric d then wrap numberToken t2 [c, d]
          else if d == b 'i' then
            expectOne t2 [c, d] [(b 'n', fun t conc =>
              expectOne t conc [(b 'f', fun t conc => simple .negInf conc t)])]
          else if d == b '>' then simple .arrow [c, d] t2
          else simple .arrow [c, b '>'] (addErr t2 .other)
      else ({}, .no, t1)

/-- nextIdent (ASCII): letters, digits, underscore. -/
def identLoop : Nat → TR → List Byte → Bool × TR
  | 0, t, conc => (true, setNext t { kind := (keywordKind conc).getD .ident, concrete := conc })
  | fuel+1, t, conc =>
    match t.inp with
    | [] =>
      if t.ioFail then (false, addErr t .io)
      else (true, setNext t { kind := (keywordKind conc).getD .ident, concrete := conc })
    | c :: rest =>
      if c.toNat ≥ 0x80 then (false, { t with nonAscii := true })
      else if isAsciiLetter c || isNumeric c || c == b '_' then
        identLoop fuel { t with inp := rest, last := some c } (conc ++ [c])
      else (true, setNext { t with last := none } { kind := (keywordKind conc).getD .ident, concrete := conc })

/-- tokenReader.Next -/
def next (t : TR) : Bool × TR :=
  if t.keep then (true, { t with keep := false })
  else
    let errCount := t.errs.length
    let (tk, r, t1) := findFirst (t.inp.length + 1) t
    -- if len(tr.errs) != 0 { ... }: a clean end of input is io.EOF, removed again at once
    if r == .eof then (false, t1)
    else if t1.errs.getLast? == some .ueof then (false, t1)
    else if !t1.errs.isEmpty && r != .tok && t1.errs.length > errCount then (false, t1)   -- the reader failed
    else if r == .tok then (true, setNext t1 tk)
    else
        let t2 := unreadByte t1
        if t2.panicked then (false, t2) else
        -- ReadRune
        match t2.inp with
        | [] => (false, addErr t2 (if t2.ioFail then .io else .ueof))
        | c :: rest =>
          if c.toNat ≥ 0x80 then (false, { t2 with nonAscii := true })
          else if isAsciiLetter c then
            identLoop (rest.length + 1) { t2 with inp := rest, last := some c } [c]
          else (false, addErr { t2 with inp := rest, last := some c } .other)

/-- tr.Err() != nil -/
def hasErr (t : TR) : Bool := !t.errs.isEmpty

/-- All tokens until `Next` returns false (what the tokenizer tests and the formatter see). -/
def allTokens : Nat → TR → List Token → List Token × TR
  | 0, t, acc => (acc.reverse, t)
  | fuel+1, t, acc =>
    match next t with
    | (true, t1) => allTokens fuel t1 (t1.nextTok :: acc)
    | (false, t1) => (acc.reverse, t1)

def mkTR (inp : List Byte) (ioFail : Bool := false) : TR := { inp := inp, ioFail := ioFail }

end Bebop.Text
