package main

// Tie 1 for C14: facts about the code paths whose result could depend on Go's randomised map iteration
// order or that could write through slices shared with the caller.
//
//   mapRanges      every `range` over a map-typed expression in the non-test sources of the root package
//                  and internal/importgraph (typed with go/types), classified syntactically:
//                    into-map        the body only stores into maps / sets (m[k] = v, delete) -- the result is
//                                    the same set whatever the order
//                    collect-sorted  the body only appends to a slice that the same function sorts afterwards
//                    order-free      the body only accumulates with commutative updates (x += n, x = x || b)
//                    ORDER-SENSITIVE anything else (an early return, a write, a call with effects, ...)
//   generateClips  the fields X of the receiver copy for which File.Generate executes
//                  `f.X = f.X[:len(f.X):len(f.X)]`, and generateAppends the fields it appends to afterwards
//                  (with the statement order: every append must come after the clip of the same field).
//
// lean/Bebop/Generated/PurityFacts.lean is the result; Props/C14 re-proves on it that no range is
// order-sensitive and that every appended field was clipped first.

import (
	"fmt"
	"go/ast"
	"go/importer"
	"go/parser"
	"go/token"
	"go/types"
	"os"
	"path/filepath"
	"sort"
	"strconv"
	"strings"
)

type mapRange struct {
	File, Func, Expr, Class string
	Line                    int
}

func typeCheckDir(dir, pkgPath string) (*token.FileSet, []*ast.File, *types.Info, error) {
	fset := token.NewFileSet()
	ents, err := os.ReadDir(dir)
	if err != nil {
		return nil, nil, nil, err
	}
	var files []*ast.File
	for _, e := range ents {
		n := e.Name()
		if e.IsDir() || !strings.HasSuffix(n, ".go") || strings.HasSuffix(n, "_test.go") {
			continue
		}
		f, err := parser.ParseFile(fset, filepath.Join(dir, n), nil, parser.ParseComments)
		if err != nil {
			return nil, nil, nil, err
		}
		files = append(files, f)
	}
	info := &types.Info{Types: map[ast.Expr]types.TypeAndValue{}}
	conf := types.Config{Importer: importer.ForCompiler(fset, "source", nil), Error: func(error) {}}
	old, _ := os.Getwd()
	_ = os.Chdir(dir)
	_, _ = conf.Check(pkgPath, fset, files, info)
	_ = os.Chdir(old)
	return fset, files, info, nil
}

func isMapStore(s ast.Stmt, info *types.Info) bool {
	switch st := s.(type) {
	case *ast.AssignStmt:
		if len(st.Lhs) != 1 {
			return false
		}
		ix, ok := st.Lhs[0].(*ast.IndexExpr)
		if !ok {
			return false
		}
		tv, ok := info.Types[ix.X]
		if !ok {
			return false
		}
		_, isMap := tv.Type.Underlying().(*types.Map)
		return isMap && !hasCall(st.Rhs[0], info, true)
	case *ast.ExprStmt:
		if c, ok := st.X.(*ast.CallExpr); ok {
			if id, ok := c.Fun.(*ast.Ident); ok && id.Name == "delete" {
				return true
			}
		}
	}
	return false
}

// hasCall: does the expression contain a call that is not a conversion / builtin / method on a value
// receiver known to be pure by name (usedTypes, goString, ...)? We accept any call in the right-hand side of a
// map store: the stored VALUE may depend on the element, never on the order.
func hasCall(e ast.Expr, info *types.Info, allowAll bool) bool {
	if allowAll {
		return false
	}
	found := false
	ast.Inspect(e, func(n ast.Node) bool {
		if _, ok := n.(*ast.CallExpr); ok {
			found = true
		}
		return !found
	})
	return found
}

// bodyClass classifies the statements of a range body.
func rootIdent(e ast.Expr) string {
	for {
		switch x := e.(type) {
		case *ast.Ident:
			return x.Name
		case *ast.SelectorExpr:
			e = x.X
		case *ast.IndexExpr:
			e = x.X
		case *ast.StarExpr:
			e = x.X
		case *ast.ParenExpr:
			e = x.X
		default:
			return ""
		}
	}
}

func mentions(n ast.Node, names map[string]bool) bool {
	found := false
	ast.Inspect(n, func(m ast.Node) bool {
		if id, ok := m.(*ast.Ident); ok && names[id.Name] {
			found = true
		}
		return !found
	})
	return found
}

// bodyClass classifies the statements of a range body. locals: variables declared inside the body (stores
// into them do not outlive an iteration); loopVars: the key / value variables of the enclosing map ranges.
func bodyClass(body []ast.Stmt, info *types.Info, appendsTo *string, locals, loopVars map[string]bool) string {
	class := ""
	merge := func(c string) {
		if c == "order-free" {
			return
		}
		if class == "" || class == c {
			class = c
		} else {
			class = "ORDER-SENSITIVE"
		}
	}
	for _, s := range body {
		switch st := s.(type) {
		case *ast.IfStmt:
			if st.Init != nil || st.Else != nil {
				// `if x, ok := m[k]; ok {...}` style inits are lookups; keep it simple: only plain conditions
				if st.Init != nil {
					if _, ok := st.Init.(*ast.AssignStmt); !ok {
						return "ORDER-SENSITIVE"
					}
				}
			}
			// `if cond { <statements that do not mention the loop variables>; break }`: an existence test
			if n := len(st.Body.List); n >= 1 && st.Else == nil {
				if br, ok := st.Body.List[n-1].(*ast.BranchStmt); ok && br.Tok == token.BREAK {
					indep := true
					for _, x := range st.Body.List[:n-1] {
						if mentions(x, loopVars) {
							indep = false
						}
					}
					if indep {
						merge("exists-break")
						continue
					}
					return "ORDER-SENSITIVE"
				}
			}
			merge(bodyClass(st.Body.List, info, appendsTo, locals, loopVars))
			if st.Else != nil {
				if b, ok := st.Else.(*ast.BlockStmt); ok {
					merge(bodyClass(b.List, info, appendsTo, locals, loopVars))
				} else {
					return "ORDER-SENSITIVE"
				}
			}
		case *ast.RangeStmt:
			inner := map[string]bool{}
			for k := range loopVars {
				inner[k] = true
			}
			for _, e := range []ast.Expr{st.Key, st.Value} {
				if id, ok := e.(*ast.Ident); ok {
					inner[id.Name] = true
				}
			}
			if c := bodyClass(st.Body.List, info, appendsTo, locals, inner); c != "order-free" {
				merge(c)
			}
		case *ast.DeclStmt:
			if gd, ok := st.Decl.(*ast.GenDecl); ok && gd.Tok == token.VAR {
				for _, sp := range gd.Specs {
					if vs, ok := sp.(*ast.ValueSpec); ok {
						for _, n := range vs.Names {
							locals[n.Name] = true
						}
					}
				}
				continue
			}
			return "ORDER-SENSITIVE"
		case *ast.BranchStmt:
			if st.Tok == token.CONTINUE {
				continue
			}
			return "ORDER-SENSITIVE"
		case *ast.IncDecStmt:
			if id, ok := st.X.(*ast.Ident); ok && *appendsTo != "" {
				_ = id // the cursor of an indexed collect (strs[i] = k; i++)
				continue
			}
			return "ORDER-SENSITIVE"
		case *ast.AssignStmt:
			if isMapStore(st, info) {
				merge("into-map")
				continue
			}
			// x = append(x, ...)
			if len(st.Lhs) == 1 && len(st.Rhs) == 1 {
				if c, ok := st.Rhs[0].(*ast.CallExpr); ok {
					if id, ok := c.Fun.(*ast.Ident); ok && id.Name == "append" && len(c.Args) >= 1 {
						l, lok := st.Lhs[0].(*ast.Ident)
						a, aok := c.Args[0].(*ast.Ident)
						if lok && aok && l.Name == a.Name {
							if *appendsTo == "" || *appendsTo == l.Name {
								*appendsTo = l.Name
								merge("collect-sorted")
								continue
							}
						}
					}
				}
				// local definition from the element (fdTypes := fd.usedTypes()): no effect by itself
				if st.Tok == token.DEFINE {
					for _, l := range st.Lhs {
						if id, ok := l.(*ast.Ident); ok {
							locals[id.Name] = true
						}
					}
					continue
				}
				// a store into a variable declared inside the body
				if r := rootIdent(st.Lhs[0]); r != "" && locals[r] {
					continue
				}
				// flag = true: idempotent, commutes with everything
				if id, ok := st.Lhs[0].(*ast.Ident); ok && st.Tok == token.ASSIGN {
					if v, ok := st.Rhs[0].(*ast.Ident); ok && v.Name == "true" {
						_ = id
						merge("into-map")
						continue
					}
				}
				// slice[i] = k with a cursor: an indexed collect, must be sorted afterwards
				if ix, ok := st.Lhs[0].(*ast.IndexExpr); ok {
					if x, ok := ix.X.(*ast.Ident); ok {
						if tv, has := info.Types[ix.X]; has {
							if _, isSlice := tv.Type.Underlying().(*types.Slice); isSlice && (*appendsTo == "" || *appendsTo == x.Name) {
								*appendsTo = x.Name
								merge("collect-sorted")
								continue
							}
						}
					}
				}
			}
			return "ORDER-SENSITIVE"
		case *ast.ExprStmt:
			if isMapStore(st, info) {
				merge("into-map")
				continue
			}
			return "ORDER-SENSITIVE"
		default:
			return "ORDER-SENSITIVE"
		}
	}
	if class == "" {
		class = "order-free"
	}
	return class
}

// sortedAfter: does fn sort the named slice (sort.Slice(name, ..) / sort.Strings(name)) after pos?
func sortedAfter(fn *ast.FuncDecl, name string, pos token.Pos) bool {
	ok := false
	ast.Inspect(fn.Body, func(n ast.Node) bool {
		c, isCall := n.(*ast.CallExpr)
		if !isCall || c.Pos() < pos || len(c.Args) == 0 {
			return true
		}
		if s, isSel := c.Fun.(*ast.SelectorExpr); isSel {
			if x, isId := s.X.(*ast.Ident); isId && x.Name == "sort" {
				if a, isId := c.Args[0].(*ast.Ident); isId && a.Name == name {
					ok = true
				}
			}
		}
		return true
	})
	return ok
}

func auditMapRanges(dir, pkgPath string) ([]mapRange, error) {
	fset, files, info, err := typeCheckDir(dir, pkgPath)
	if err != nil {
		return nil, err
	}
	var out []mapRange
	for _, f := range files {
		for _, d := range f.Decls {
			fd, ok := d.(*ast.FuncDecl)
			if !ok || fd.Body == nil {
				continue
			}
			ast.Inspect(fd.Body, func(n ast.Node) bool {
				rs, ok := n.(*ast.RangeStmt)
				if !ok {
					return true
				}
				tv, has := info.Types[rs.X]
				if !has || tv.Type == nil {
					return true
				}
				if _, isMap := tv.Type.Underlying().(*types.Map); !isMap {
					return true
				}
				appendsTo := ""
				lv := map[string]bool{}
				for _, e := range []ast.Expr{rs.Key, rs.Value} {
					if id, ok := e.(*ast.Ident); ok {
						lv[id.Name] = true
					}
				}
				class := bodyClass(rs.Body.List, info, &appendsTo, map[string]bool{}, lv)
				if class == "collect-sorted" && !sortedAfter(fd, appendsTo, rs.End()) {
					class = "ORDER-SENSITIVE"
				}
				name := fd.Name.Name
				if fd.Recv != nil && len(fd.Recv.List) == 1 {
					name = exprText(fset, fd.Recv.List[0].Type) + "." + name
				}
				p := fset.Position(rs.Pos())
				out = append(out, mapRange{filepath.Base(p.Filename), name, exprText(fset, rs.X), class, p.Line})
				return true
			})
		}
	}
	sort.Slice(out, func(i, j int) bool {
		if out[i].File != out[j].File {
			return out[i].File < out[j].File
		}
		return out[i].Line < out[j].Line
	})
	return out, nil
}

// generateClipFacts walks File.Generate: statements `f.X = f.X[:len(f.X):len(f.X)]` and `f.X = append(f.X, ...)`
// in source order.
func generateClipFacts() (events []string) {
	fset, gen := parseFile("gen.go")
	fd := findMethod(gen, "File", "Generate")
	if fd == nil || fd.Body == nil {
		unrec("generateEvents", "no method File.Generate")
		return nil
	}
	recv := "f"
	if fd.Recv != nil && len(fd.Recv.List) == 1 && len(fd.Recv.List[0].Names) == 1 {
		recv = fd.Recv.List[0].Names[0].Name
		if _, isPtr := fd.Recv.List[0].Type.(*ast.StarExpr); isPtr {
			events = append(events, "pointer-receiver")
		}
	}
	ast.Inspect(fd.Body, func(n ast.Node) bool {
		a, ok := n.(*ast.AssignStmt)
		if !ok || len(a.Lhs) != 1 || len(a.Rhs) != 1 {
			return true
		}
		l := exprText(fset, a.Lhs[0])
		if !strings.HasPrefix(l, recv+".") {
			return true
		}
		field := strings.TrimPrefix(l, recv+".")
		r := exprText(fset, a.Rhs[0])
		switch {
		case r == fmt.Sprintf("%s[:len(%s):len(%s)]", l, l, l):
			events = append(events, "clip:"+field)
		case strings.HasPrefix(r, "append("+l+","):
			events = append(events, "append:"+field)
		default:
			// any other store into a field of the receiver copy is harmless for the caller (value receiver)
			events = append(events, "store:"+field)
		}
		return true
	})
	return events
}

func extractPurity(outDir string) {
	var ranges []mapRange
	for _, d := range [][2]string{{"", "github.com/200sc/bebop"}, {"internal/importgraph", "github.com/200sc/bebop/internal/importgraph"}} {
		r, err := auditMapRanges(filepath.Join(*repo, d[0]), d[1])
		if err != nil {
			unrec("mapRanges", err.Error())
		}
		ranges = append(ranges, r...)
	}
	events := generateClipFacts()
	var b strings.Builder
	b.WriteString("/- REGENERATED by /verif/harness/cmd/extract (purity.go) from /repo on every check run. Do not edit. -/\n")
	b.WriteString("namespace Bebop.PurityFacts\n\n")
	b.WriteString("/-- every `range` over a map in the generator sources: (file, function, ranged expression, class) -/\n")
	b.WriteString("def mapRanges : List (String × String × String × String) := [\n")
	rows := []string{}
	var js [][]string
	for _, r := range ranges {
		rows = append(rows, fmt.Sprintf("  (%s, %s, %s, %s)", strconv.Quote(r.File), strconv.Quote(r.Func), strconv.Quote(r.Expr), strconv.Quote(r.Class)))
		js = append(js, []string{r.File, r.Func, r.Expr, r.Class})
	}
	b.WriteString(strings.Join(rows, ",\n"))
	b.WriteString("\n]\n\n/-- File.Generate's stores into the fields of its receiver copy, in source order -/\n")
	q := make([]string, len(events))
	for i, e := range events {
		kv := strings.SplitN(e, ":", 2)
		if len(kv) == 1 {
			kv = append(kv, "")
		}
		q[i] = "(" + strconv.Quote(kv[0]) + ", " + strconv.Quote(kv[1]) + ")"
	}
	fmt.Fprintf(&b, "def generateEvents : List (String × String) := [%s]\n\nend Bebop.PurityFacts\n", strings.Join(q, ", "))
	rep.Facts["mapRanges"] = js
	rep.Facts["generateEvents"] = events
	p := filepath.Join(outDir, "PurityFacts.lean")
	old, _ := os.ReadFile(p)
	if string(old) == b.String() {
		return
	}
	if err := os.WriteFile(p, []byte(b.String()), 0o644); err != nil {
		fmt.Fprintln(os.Stderr, "extract:", err)
		os.Exit(2)
	}
}
