// Command imports is the correspondence engine for property C18: import graphs are materialised as real
// directory trees of .bop files (files in sub-directories, paths relative to the importing file, diamonds,
// cycles, files without go_package, missing files); the real File.Generate runs in both import modes and
// its outcome is compared with the Lean model and with direct oracles (separate mode: cycle error exactly
// when the package graph reachable from the root is cyclic; combined mode over an acyclic graph: the same
// Go source as the single schema obtained by inlining every reachable file once).
package main

import (
	"bytes"
	"encoding/json"
	"flag"
	"fmt"
	"math/rand"
	"os"
	"path/filepath"
	"sort"
	"strings"
	"time"

	"github.com/200sc/bebop"
	"verif/harness/internal/proc"
)

type failure struct {
	Property string `json:"property"`
	Kind     string `json:"kind"`
	Class    string `json:"class"`
	Graph    string `json:"graph"`
	Op       string `json:"op"`
	Expected string `json:"expected"`
	Observed string `json:"observed"`
	Model    string `json:"model"`
	Note     string `json:"note"`
}

type stat struct {
	Evaluations        int            `json:"evaluations"`
	DistinctNontrivial int            `json:"distinct_nontrivial"`
	Rule               string         `json:"rule"`
	Samples            []string       `json:"samples"`
	Distribution       map[string]int `json:"distribution"`
	FailuresTotal      int            `json:"failures_total"`
	Exhaustive         bool           `json:"exhaustive"`
}

// graph: node i imports edges[i]; hasPkg[i]; dirs[i] the sub-directory of node i; missing[i]: extra
// import of a file that does not exist.
type graph struct {
	N       int
	Edges   [][]int
	HasPkg  []bool
	Dirs    []string
	Missing []bool
}

func (g graph) String() string {
	var b strings.Builder
	for i := 0; i < g.N; i++ {
		fmt.Fprintf(&b, "%d[%s pkg=%v]->%v", i, g.Dirs[i], g.HasPkg[i], g.Edges[i])
		if g.Missing[i] {
			b.WriteString("+missing")
		}
		b.WriteString(" ")
	}
	return strings.TrimSpace(b.String())
}

func fileName(i int) string { return fmt.Sprintf("f%d.bop", i) }

func relPath(from, to string) string {
	r, err := filepath.Rel(from, to)
	if err != nil {
		return to
	}
	if !strings.HasPrefix(r, ".") {
		r = "./" + r
	}
	return filepath.ToSlash(r)
}

// body of node i: one struct S<i> whose fields use the structs of the files it imports.
func (g graph) text(i int, withImports bool) string {
	var b strings.Builder
	if withImports {
		for _, t := range g.Edges[i] {
			fmt.Fprintf(&b, "import \"%s\"\n", relPath(g.Dirs[i], filepath.Join(g.Dirs[t], fileName(t))))
		}
		if g.Missing[i] {
			b.WriteString("import \"./nowhere/none.bop\"\n")
		}
		if g.HasPkg[i] {
			fmt.Fprintf(&b, "const string go_package = \"example.com/verif/p%d\";\n", i)
		}
	}
	// the references to imported types sit in a message, so that cyclic imports do not make a struct
	// contain itself
	// what a file needs from the Go side varies with its number: dates (package time) only in files 1, 4, 7, ...
	switch i % 3 {
	case 1:
		fmt.Fprintf(&b, "struct S%d {\n\tint32 own%d;\n\tdate when%d;\n}\n", i, i, i)
	case 2:
		fmt.Fprintf(&b, "struct S%d {\n\tint32 own%d;\n\tguid id%d;\n\tmap[string, date[]] log%d;\n}\n", i, i, i, i)
	default:
		fmt.Fprintf(&b, "struct S%d {\n\tint32 own%d;\n}\n", i, i)
	}
	fmt.Fprintf(&b, "message M%d {\n\t1 -> S%d s;\n", i, i)
	for k, t := range g.Edges[i] {
		if t != i {
			fmt.Fprintf(&b, "\t%d -> S%d ref%d;\n", k+2, t, t)
		}
	}
	b.WriteString("}\n")
	return b.String()
}

func (g graph) materialise(root string) error {
	for i := 0; i < g.N; i++ {
		d := filepath.Join(root, g.Dirs[i])
		if err := os.MkdirAll(d, 0o755); err != nil {
			return err
		}
		if err := os.WriteFile(filepath.Join(d, fileName(i)), []byte(g.text(i, true)), 0o644); err != nil {
			return err
		}
	}
	return nil
}

func (g graph) modelLine(separate bool) string {
	var b strings.Builder
	sep := 0
	if separate {
		sep = 1
	}
	fmt.Fprintf(&b, "imports %d %d", sep, g.N)
	for i := 0; i < g.N; i++ {
		pkg := -1
		if g.HasPkg[i] {
			pkg = i
		}
		n := len(g.Edges[i])
		if g.Missing[i] {
			n++
		}
		fmt.Fprintf(&b, " %d %d", pkg, n)
		for _, t := range g.Edges[i] {
			fmt.Fprintf(&b, " %d", t)
		}
		if g.Missing[i] {
			fmt.Fprintf(&b, " %d", g.N+5)
		}
	}
	return b.String()
}

// reachable file ids from the root, in the order the worklist discovers them (root first, then imports)
func (g graph) reachableWorklist() ([]int, bool) {
	order := []int{}
	seen := map[int]bool{}
	queue := append([]int(nil), g.Edges[0]...)
	rootAgain := false
	for len(queue) > 0 {
		t := queue[0]
		queue = queue[1:]
		if t == 0 {
			rootAgain = true
		}
		if seen[t] {
			continue
		}
		seen[t] = true
		order = append(order, t)
		queue = append(queue, g.Edges[t]...)
	}
	return order, rootAgain
}

// cyclic: does the sub-graph reachable from the root contain a cycle (over files)?
func (g graph) cyclic() bool {
	color := make([]int, g.N)
	var visit func(i int) bool
	visit = func(i int) bool {
		color[i] = 1
		for _, t := range g.Edges[i] {
			if color[t] == 1 {
				return true
			}
			if color[t] == 0 && visit(t) {
				return true
			}
		}
		color[i] = 2
		return false
	}
	return visit(0)
}

func classify(err error) string {
	if err == nil {
		return "ok"
	}
	s := err.Error()
	switch {
	case strings.HasPrefix(s, "import cycle found"):
		return "err cycle"
	case strings.HasPrefix(s, "cannot import"):
		return "err nopkg"
	case strings.HasPrefix(s, "failed to open imported file"):
		return "err notfound"
	case strings.HasPrefix(s, "cannot generate file"):
		return "err validate"
	case strings.HasPrefix(s, "failed to parse imported file"):
		return "err parse"
	}
	return "err other: " + s
}

func main() {
	seed := flag.Int64("seed", 1, "")
	tier := flag.String("tier", "quick", "")
	modelPath := flag.String("model", "", "")
	work := flag.String("work", "/verif/.work/imports", "")
	_ = flag.String("repo", "/repo", "")
	out := flag.String("out", "", "")
	replay := flag.String("replay", "", "")
	flag.Parse()
	model := proc.Command([]string{*modelPath}, nil, 60*time.Second)
	defer model.Close()
	st := stat{Distribution: map[string]int{}}
	fails := []failure{}
	distinct := map[string]struct{}{}
	fail := func(kind, class string, g graph, op, exp, obs, mdl, note string) {
		st.FailuresTotal++
		if len(fails) < 200 {
			b, _ := json.Marshal(g)
			fails = append(fails, failure{"C18", kind, class, string(b), op, exp, obs, mdl, note})
		}
	}
	os.MkdirAll(*work, 0o755)
	runGraph := func(g0 graph, class string) {
		for _, separate := range []bool{true, false} {
			g := g0
			if !separate {
				// combined mode treats all files as one: a go_package const in more than one of them is a
				// duplicate const of the inlined schema too, so the combined runs use files without it
				g.HasPkg = make([]bool, g.N)
			}
			dir, err := os.MkdirTemp(*work, "g")
			if err != nil {
				fmt.Fprintln(os.Stderr, err)
				os.Exit(2)
			}
			if err := g.materialise(dir); err != nil {
				fmt.Fprintln(os.Stderr, err)
				os.Exit(2)
			}
			rootPath := filepath.Join(dir, g.Dirs[0], fileName(0))
			func() {
				defer os.RemoveAll(dir)
				fh, err := os.Open(rootPath)
				if err != nil {
					fmt.Fprintln(os.Stderr, err)
					os.Exit(2)
				}
				f, _, err := bebop.ReadFile(fh)
				fh.Close()
				if err != nil {
					fail("oracle", class, g, "ReadFile(root)", "ok", err.Error(), "", "harness generated an unparsable root")
					return
				}
				mode := bebop.ImportGenerationModeCombined
				if separate {
					mode = bebop.ImportGenerationModeSeparate
				}
				var outBuf bytes.Buffer
				done := make(chan error, 1)
				go func() {
					defer func() {
						if p := recover(); p != nil {
							done <- fmt.Errorf("PANIC: %v", p)
						}
					}()
					done <- f.Generate(&outBuf, bebop.GenerateSettings{PackageName: "pkgx", ImportGenerationMode: mode})
				}()
				var gerr error
				select {
				case gerr = <-done:
				case <-time.After(30 * time.Second):
					fail("timeout", class, g, fmt.Sprintf("Generate separate=%v", separate), "terminates", "no result after 30s", "", "import resolution must terminate for every graph")
					return
				}
				got := classify(gerr)
				st.Evaluations++
				st.Distribution[fmt.Sprintf("%s/separate=%v/%s", class, separate, strings.SplitN(got, ":", 2)[0])]++
				distinct[fmt.Sprintf("%s/%v", g.String(), separate)] = struct{}{}
				if strings.HasPrefix(got, "err other") || got == "err parse" {
					fail("oracle", class, g, fmt.Sprintf("Generate separate=%v", separate), "a result or one of the documented import errors", got, "", "unexpected error")
					return
				}
				// model
				m, merr := model.Send(g.modelLine(separate))
				if merr != nil {
					fmt.Fprintln(os.Stderr, "imports engine: model:", merr)
					os.Exit(2)
				}
				mclass := m
				if strings.HasPrefix(m, "ok") {
					mclass = "ok"
				}
				if mclass != got {
					fail("mismatch", class, g, fmt.Sprintf("Generate separate=%v", separate), m, got, m, "model and implementation disagree on the outcome of import resolution")
				}
				// direct oracles
				order, rootAgain := g.reachableWorklist()
				anyMissing, noPkg := false, false
				if g.Missing[0] {
					anyMissing = true
				}
				for _, i := range order {
					if g.Missing[i] {
						anyMissing = true
					}
					if !g.HasPkg[i] {
						noPkg = true
					}
				}
				allPkg := !noPkg && g.HasPkg[0]
				if separate && !anyMissing && allPkg {
					// every file has its own package: the package graph is the file graph
					want := "ok"
					if g.cyclic() {
						want = "err cycle"
					}
					if got != want {
						fail("oracle", class, g, "Generate separate", want, got, m, "an import-cycle error must be reported exactly when the graph reachable from the file is cyclic")
					}
				}
				if !separate && !anyMissing && !rootAgain && got != "ok" {
					fail("oracle", class, g, "Generate combined", "ok", got, m, "combined generation over a graph that does not lead back to the root must succeed")
				}
				if !separate && !anyMissing && !rootAgain && got == "ok" {
					// same Go source as the single inlined schema
					var inl strings.Builder
					inl.WriteString(g.text(0, false))
					// combined mode appends structs of all imports, then messages of all imports …; the
					// inlined file has the same definitions, so compare the SETS of generated declarations
					for _, i := range order {
						inl.WriteString(g.text(i, false))
					}
					fi, _, err := bebop.ReadFile(strings.NewReader(inl.String()))
					if err != nil {
						fail("oracle", class, g, "ReadFile(inlined)", "ok", err.Error(), "", "harness: inlined schema does not parse")
						return
					}
					var ib bytes.Buffer
					if err := fi.Generate(&ib, bebop.GenerateSettings{PackageName: "pkgx", ImportGenerationMode: mode}); err != nil {
						fail("oracle", class, g, "Generate(inlined)", "ok", err.Error(), "", "the inlined schema is rejected although the import graph is accepted")
						return
					}
					if a, b := declSet(outBuf.String()), declSet(ib.String()); a != b {
						fail("oracle", class, g, "Generate combined vs inlined", b, a, "", "combined output does not define exactly the declarations of the inlined schema")
					}
				}
			}()
		}
	}

	if *replay != "" {
		b, _ := os.ReadFile(*replay)
		var f failure
		_ = json.Unmarshal(b, &f)
		var g graph
		_ = json.Unmarshal([]byte(f.Graph), &g)
		fmt.Println("replaying C18 on", g.String())
		runGraph(g, "replay")
		for _, x := range fails {
			fmt.Printf("FAIL %s %s: %s\n  expected: %s\n  observed: %s\n  model: %s\n", x.Kind, x.Op, x.Note, x.Expected, x.Observed, x.Model)
		}
		if len(fails) > 0 {
			os.Exit(1)
		}
		fmt.Println("no failure on this graph with the current tree")
		return
	}

	dirChoices := []string{"", "sub", "sub/deep", "other"}
	mk := func(n int, adj uint64, dirSel, pkgSel, missSel int) graph {
		g := graph{N: n, Edges: make([][]int, n), HasPkg: make([]bool, n), Dirs: make([]string, n), Missing: make([]bool, n)}
		for i := 0; i < n; i++ {
			for j := 0; j < n; j++ {
				if adj&(1<<uint(i*n+j)) != 0 {
					g.Edges[i] = append(g.Edges[i], j)
				}
			}
			g.Dirs[i] = dirChoices[(dirSel/(1+i*3)+i)%len(dirChoices)]
			g.HasPkg[i] = pkgSel&(1<<uint(i)) == 0
			g.Missing[i] = missSel == i+1
		}
		g.Dirs[0] = dirChoices[dirSel%2]
		return g
	}
	maxN := 3
	if *tier == "thorough" {
		maxN = 4
	}
	rng := rand.New(rand.NewSource(*seed))
	// all directed graphs (self-loops included) on up to maxN nodes, every file with a go_package
	for n := 1; n <= maxN; n++ {
		total := uint64(1) << uint(n*n)
		step := uint64(1)
		if n == 4 {
			step = 7 // 65536 graphs: every 7th, plus the random ones below
		}
		for adj := uint64(0); adj < total; adj += step {
			runGraph(mk(n, adj, int(adj%5), 0, 0), fmt.Sprintf("all-graphs-n%d", n))
		}
	}
	st.Exhaustive = true
	// variations: files without go_package, missing files, directory layouts
	nVar := 300
	if *tier == "thorough" {
		nVar = 3000
	}
	for i := 0; i < nVar; i++ {
		n := 2 + rng.Intn(maxN-1)
		adj := rng.Uint64() & ((uint64(1) << uint(n*n)) - 1)
		pkgSel, miss := 0, 0
		class := "dirs"
		switch i % 3 {
		case 0:
			pkgSel = rng.Intn(1 << uint(n))
			class = "no-go-package"
		case 1:
			miss = 1 + rng.Intn(n)
			class = "missing-file"
		}
		runGraph(mk(n, adj, rng.Intn(40), pkgSel, miss), class)
	}
	// larger random graphs
	nBig := 30
	if *tier == "thorough" {
		nBig = 300
	}
	for i := 0; i < nBig; i++ {
		n := 5 + rng.Intn(4)
		g := graph{N: n, Edges: make([][]int, n), HasPkg: make([]bool, n), Dirs: make([]string, n), Missing: make([]bool, n)}
		for a := 0; a < n; a++ {
			g.HasPkg[a] = true
			g.Dirs[a] = dirChoices[rng.Intn(len(dirChoices))]
			for b := 0; b < n; b++ {
				// mostly forward edges (acyclic), sometimes a back edge
				if (b > a && rng.Intn(3) == 0) || (b <= a && rng.Intn(25) == 0) {
					g.Edges[a] = append(g.Edges[a], b)
				}
			}
		}
		runGraph(g, "large")
	}
	st.DistinctNontrivial = len(distinct)
	st.Rule = fmt.Sprintf("every directed graph (self-loops included) on 1..%d files with files spread over sub-directories and import paths relative to the importing file (n=4: every 7th adjacency matrix); random graphs with files lacking go_package, with an import of a missing file, and larger mostly-acyclic graphs; each in separate and combined mode. distinct = distinct (graph, mode)", maxN)
	st.Samples = []string{mk(3, 0b010001100, 1, 0, 0).String(), mk(2, 0b0110, 0, 0, 0).String()}
	res := map[string]interface{}{"engine": "imports", "seed": *seed, "tier": *tier,
		"stats": map[string]interface{}{"C18": st}, "failures": fails}
	b, _ := json.MarshalIndent(res, "", " ")
	if *out != "" {
		if err := os.WriteFile(*out, b, 0o644); err != nil {
			fmt.Fprintln(os.Stderr, err)
			os.Exit(2)
		}
	}
	fmt.Printf("C18: evaluations=%d distinct=%d failures=%d\n", st.Evaluations, st.DistinctNontrivial, st.FailuresTotal)
}

// declSet: the sorted set of top-level `type X …` / `func …` declaration headers and of the imported Go packages of a Go source text.
func declSet(src string) string {
	var ds []string
	inImports := false
	for _, l := range strings.Split(src, "\n") {
		if strings.HasPrefix(l, "type ") || strings.HasPrefix(l, "func ") {
			ds = append(ds, l)
		}
		// the Go packages the output imports are part of what it says
		switch {
		case strings.HasPrefix(l, "import ("):
			inImports = true
		case inImports && strings.HasPrefix(l, ")"):
			inImports = false
		case inImports && strings.TrimSpace(l) != "":
			ds = append(ds, "import "+strings.TrimSpace(l))
		case strings.HasPrefix(l, "import \""):
			ds = append(ds, strings.TrimSpace(l))
		}
	}
	sort.Strings(ds)
	return strings.Join(ds, "\n")
}
