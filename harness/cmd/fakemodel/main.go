// Command fakemodel is a STAND-IN for the Lean model driver (bebop-model), written in Go from
// PROTOCOL.md and the published wire format. It exists only to exercise the engine's
// model-comparison plumbing when the Lean binary is not available; it proves nothing.
//
// Flag -bug N plants a deliberate defect (used to check that the engine notices disagreements):
//
//	1: enc writes message lengths one too small
//	2: dec accepts truncated strings
//	3: decs reports consumed+1
package main

import (
	"bufio"
	"encoding/binary"
	"flag"
	"fmt"
	"os"
	"strconv"
	"strings"

	"verif/harness/internal/schema"
	"verif/harness/internal/val"
)

var bug = flag.Int("bug", 0, "plant a deliberate defect")

var env = &schema.Env{}

var guidPerm = []int{3, 2, 1, 0, 5, 4, 7, 6, 8, 9, 10, 11, 12, 13, 14, 15}

func le(w int, n uint64) []byte {
	b := make([]byte, 8)
	binary.LittleEndian.PutUint64(b, n)
	return b[:w]
}

// enc is the reference encoder: it looks at the value only.
func enc(v val.Val) []byte {
	switch v.K {
	case val.KScalar:
		return le(v.W, v.N)
	case val.KStr:
		return append(le(4, uint64(len(v.B))), v.B...)
	case val.KGuid:
		out := make([]byte, 16)
		for i, p := range guidPerm {
			out[i] = v.B[p]
		}
		return out
	case val.KArr:
		out := le(4, uint64(len(v.Elems)))
		for _, e := range v.Elems {
			out = append(out, enc(e)...)
		}
		return out
	case val.KMap:
		out := le(4, uint64(len(v.Elems)))
		for i := range v.Elems {
			out = append(out, enc(v.Keys[i])...)
			out = append(out, enc(v.Elems[i])...)
		}
		return out
	case val.KStruct:
		var out []byte
		for _, e := range v.Elems {
			out = append(out, enc(e)...)
		}
		return out
	case val.KMsg:
		var body []byte
		for i, e := range v.Elems {
			body = append(body, byte(v.Idx[i]))
			body = append(body, enc(e)...)
		}
		body = append(body, 0)
		n := uint64(len(body))
		if *bug == 1 {
			n--
		}
		return append(le(4, n), body...)
	case val.KUnion:
		if v.Disc >= 256 {
			return le(4, 0) // what the real encoders write when no member is set: just the length
		}
		m := enc(v.Elems[0])
		return append(append(le(4, uint64(len(m))), byte(v.Disc)), m...)
	}
	return nil
}

// cursor reads from a byte string under nested limits (the LimitedReaders of the stream
// decoders) and an optional failure position.
type cursor struct {
	data     []byte
	pos      int
	limits   []int // remaining bytes of every enclosing limited region
	failAt   int   // -1: never; otherwise the reader fails after this many bytes
	stream   bool
	unsafe   bool
	panicked bool
	failed   bool
}

func (c *cursor) avail() int {
	a := len(c.data) - c.pos
	if c.failAt >= 0 && c.failAt-c.pos < a {
		a = c.failAt - c.pos
	}
	for _, l := range c.limits {
		if l < a {
			a = l
		}
	}
	if a < 0 {
		a = 0
	}
	return a
}

// take returns the next n bytes or nil (and marks failure).
func (c *cursor) take(n int) []byte {
	if c.failed || c.panicked {
		return nil
	}
	if n > c.avail() {
		if c.unsafe {
			c.panicked = true
		} else {
			c.failed = true
		}
		if c.stream {
			// a stream reader hands out what it has before failing
			k := c.avail()
			c.advance(k)
		}
		return nil
	}
	b := c.data[c.pos : c.pos+n]
	c.advance(n)
	return b
}

func (c *cursor) advance(n int) {
	c.pos += n
	for i := range c.limits {
		c.limits[i] -= n
	}
}

func u32(b []byte) int { return int(binary.LittleEndian.Uint32(b)) }

func isNaNKey(kt schema.Ty, k val.Val) bool {
	switch kt.K {
	case schema.TyF32:
		b := uint32(k.N)
		return b&0x7f800000 == 0x7f800000 && b&0x007fffff != 0
	case schema.TyF64:
		return k.N&0x7ff0000000000000 == 0x7ff0000000000000 && k.N&0x000fffffffffffff != 0
	}
	return false
}

func keyIdent(kt schema.Ty, k val.Val) string {
	if kt.K == schema.TyF32 && uint32(k.N) == 0x80000000 {
		k.N = 0
	}
	if kt.K == schema.TyF64 && k.N == 0x8000000000000000 {
		k.N = 0
	}
	return k.String()
}

const maxCount = 1 << 22 // the stand-in refuses absurd counts instead of looping

func dateNorm(n uint64) uint64 {
	tm := int64(n) * 100
	if tm == 0 {
		return 0
	}
	return uint64(tm / 100)
}

// decode reads one value of type ty.
func decode(c *cursor, ty schema.Ty, depth int) (val.Val, bool) {
	if depth > 200 {
		c.failed = true
		return val.Val{}, false
	}
	switch ty.K {
	case schema.TyBool:
		b := c.take(1)
		if b == nil {
			return val.Val{}, false
		}
		n := uint64(0)
		if b[0] == 1 {
			n = 1
		}
		return val.Scalar(1, n), true
	case schema.TyScalar, schema.TyF32, schema.TyF64, schema.TyDate:
		w := ty.Width()
		b := c.take(w)
		if b == nil {
			return val.Val{}, false
		}
		buf := make([]byte, 8)
		copy(buf, b)
		n := binary.LittleEndian.Uint64(buf)
		if ty.K == schema.TyDate {
			n = dateNorm(n)
		}
		return val.Scalar(w, n), true
	case schema.TyStr:
		b := c.take(4)
		if b == nil {
			return val.Val{}, false
		}
		n := u32(b)
		if *bug == 2 && n > c.avail() {
			n = c.avail()
		}
		s := c.take(n)
		if s == nil {
			return val.Val{}, false
		}
		return val.Val{K: val.KStr, B: append([]byte{}, s...)}, true
	case schema.TyGuid:
		b := c.take(16)
		if b == nil {
			return val.Val{}, false
		}
		out := make([]byte, 16)
		for i, p := range guidPerm {
			out[i] = b[p]
		}
		return val.Val{K: val.KGuid, B: out}, true
	case schema.TyArr:
		b := c.take(4)
		if b == nil {
			return val.Val{}, false
		}
		n := u32(b)
		if w := ty.Elem.Width(); (w > 0 || ty.Elem.K == schema.TyGuid) && !c.stream {
			if ty.Elem.K == schema.TyGuid {
				w = 16
			}
			if n*w > c.avail() {
				c.take(n * w)
				return val.Val{}, false
			}
		}
		if n > maxCount {
			c.failed = true
			return val.Val{}, false
		}
		out := val.Val{K: val.KArr}
		for i := 0; i < n; i++ {
			e, ok := decode(c, *ty.Elem, depth+1)
			if !ok {
				return val.Val{}, false
			}
			out.Elems = append(out.Elems, e)
		}
		return out, true
	case schema.TyMap:
		b := c.take(4)
		if b == nil {
			return val.Val{}, false
		}
		n := u32(b)
		if n > maxCount {
			c.failed = true
			return val.Val{}, false
		}
		out := val.Val{K: val.KMap}
		where := map[string]int{}
		for i := 0; i < n; i++ {
			k, ok := decode(c, *ty.Key, depth+1)
			if !ok {
				return val.Val{}, false
			}
			e, ok := decode(c, *ty.Elem, depth+1)
			if !ok {
				return val.Val{}, false
			}
			if !isNaNKey(*ty.Key, k) {
				id := keyIdent(*ty.Key, k)
				if at, dup := where[id]; dup {
					out.Elems[at] = e // Go map assignment: the later value wins, the first key stays
					continue
				}
				where[id] = len(out.Keys)
			}
			out.Keys = append(out.Keys, k)
			out.Elems = append(out.Elems, e)
		}
		return out, true
	case schema.TyRef:
		if ty.Ref >= len(env.Defs) {
			c.failed = true
			return val.Val{}, false
		}
		d := env.Defs[ty.Ref]
		switch d.Kind {
		case schema.Struct:
			out := val.Val{K: val.KStruct}
			for _, fd := range d.Fields {
				e, ok := decode(c, fd.Ty, depth+1)
				if !ok {
					return val.Val{}, false
				}
				out.Elems = append(out.Elems, e)
			}
			return out, true
		case schema.Message:
			b := c.take(4)
			if b == nil {
				return val.Val{}, false
			}
			n := u32(b)
			start := c.pos
			if c.stream {
				c.limits = append(c.limits, n)
			}
			out := val.Val{K: val.KMsg}
			present := map[int]int{}
		fields:
			for {
				ib := c.take(1)
				if ib == nil {
					return val.Val{}, false
				}
				idx := int(ib[0])
				var fd *schema.DefField
				for i := range d.Fields {
					if d.Fields[i].Idx == idx {
						fd = &d.Fields[i]
					}
				}
				if fd == nil {
					break fields
				}
				e, ok := decode(c, fd.Ty, depth+1)
				if !ok {
					return val.Val{}, false
				}
				if at, dup := present[idx]; dup {
					out.Elems[at] = e
				} else {
					present[idx] = len(out.Idx)
					out.Idx = append(out.Idx, idx)
					out.Elems = append(out.Elems, e)
				}
			}
			sortMsg(&out)
			if c.stream {
				rest := c.avail() // Drain reads what the limited reader still allows
				c.limits = c.limits[:len(c.limits)-1]
				if rest > 0 {
					c.advance(rest) // Drain
				}
			} else if depth > 0 {
				// the byte decoders skip a nested message by its length prefix, never by less than what was read
				end := start + n
				if end < c.pos {
					end = c.pos
				}
				if end > len(c.data) {
					c.take(len(c.data) - c.pos + 1)
					return val.Val{}, false
				}
				c.pos = end
			}
			return out, true
		case schema.Union:
			b := c.take(4)
			if b == nil {
				return val.Val{}, false
			}
			n := u32(b)
			start := c.pos
			if !c.stream && c.avail() == 0 {
				c.take(1) // ErrUnpopulatedUnion / out of range
				return val.Val{}, false
			}
			if c.stream {
				c.limits = append(c.limits, n+1)
			}
			db := c.take(1)
			if db == nil {
				return val.Val{}, false
			}
			out := val.EmptyUnion()
			for _, br := range d.Branches {
				if br.Disc == int(db[0]) {
					m, ok := decode(c, schema.Ty{K: schema.TyRef, Ref: br.Ref}, depth+1)
					if !ok {
						return val.Val{}, false
					}
					out = val.Val{K: val.KUnion, Disc: br.Disc, Elems: []val.Val{m}}
				}
			}
			if c.stream {
				rest := c.avail() // Drain reads what the limited reader still allows
				c.limits = c.limits[:len(c.limits)-1]
				if rest > 0 {
					c.advance(rest)
				}
			} else if depth > 0 {
				end := start + 1 + n
				if end < c.pos {
					end = c.pos
				}
				if end > len(c.data) {
					c.take(len(c.data) - c.pos + 1)
					return val.Val{}, false
				}
				c.pos = end
			}
			return out, true
		}
	}
	c.failed = true
	return val.Val{}, false
}

func sortMsg(v *val.Val) {
	for i := 1; i < len(v.Idx); i++ {
		for j := i; j > 0 && v.Idx[j] < v.Idx[j-1]; j-- {
			v.Idx[j], v.Idx[j-1] = v.Idx[j-1], v.Idx[j]
			v.Elems[j], v.Elems[j-1] = v.Elems[j-1], v.Elems[j]
		}
	}
}

func handle(line string) string {
	t := strings.Fields(line)
	if len(t) == 0 {
		return "bad-op empty"
	}
	switch t[0] {
	case "env":
		if len(t) != 2 {
			return "bad-op env <N>"
		}
		n, err := strconv.Atoi(t[1])
		if err != nil || n < 0 {
			return "bad-op bad env size"
		}
		env = &schema.Env{Defs: make([]schema.Def, n)}
		return "ok"
	case "def":
		if err := env.ParseDefLine(t); err != nil {
			return "bad-op " + err.Error()
		}
		return "ok"
	case "gotype":
		return "ok"
	case "enc":
		v, rest, err := val.Parse(t[1:])
		if err != nil || len(rest) != 0 {
			return "bad-op bad value"
		}
		b := enc(v)
		return fmt.Sprintf("ok %s %d", val.Hex(b), len(b))
	case "marshalto":
		if len(t) < 3 {
			return "bad-op marshalto <hexbuf> <Val>"
		}
		buf, err := val.Unhex(t[1])
		if err != nil {
			return "bad-op bad hex"
		}
		v, rest, err := val.Parse(t[2:])
		if err != nil || len(rest) != 0 {
			return "bad-op bad value"
		}
		b := enc(v)
		if len(b) > len(buf) {
			return "panic"
		}
		copy(buf, b)
		return fmt.Sprintf("ok %s %d", val.Hex(buf), len(b))
	case "dec", "decs", "decsfail":
		args := t[1:]
		c := &cursor{failAt: -1}
		if t[0] == "dec" {
			if len(args) != 3 {
				return "bad-op dec <safe> <defidx> <hex>"
			}
			c.unsafe = args[0] == "0"
			args = args[1:]
		} else {
			c.stream = true
		}
		if len(args) < 2 {
			return "bad-op arguments"
		}
		di, err := strconv.Atoi(args[0])
		if err != nil || di < 0 || di >= len(env.Defs) {
			return "bad-op bad def index"
		}
		if t[0] == "decsfail" {
			if len(args) != 3 {
				return "bad-op decsfail <defidx> <k> <hex>"
			}
			k, err := strconv.Atoi(args[1])
			if err != nil || k < 0 {
				return "bad-op bad k"
			}
			c.failAt = k
			args = []string{args[0], args[2]}
		}
		if len(args) != 2 {
			return "bad-op arguments"
		}
		c.data, err = val.Unhex(args[1])
		if err != nil {
			return "bad-op bad hex"
		}
		if c.failAt > len(c.data) {
			c.failAt = len(c.data)
		}
		v, ok := decode(c, schema.Ty{K: schema.TyRef, Ref: di}, 0)
		consumed := c.pos
		if *bug == 3 {
			consumed++
		}
		switch {
		case c.panicked:
			return "panic"
		case !ok:
			if c.stream {
				return fmt.Sprintf("err %d", consumed)
			}
			return "err"
		case c.stream:
			return fmt.Sprintf("ok %s %d", v.String(), consumed)
		}
		return "ok " + v.String()
	}
	return "bad-op unknown operation " + t[0]
}

func main() {
	flag.Parse()
	in := bufio.NewReaderSize(os.Stdin, 1<<20)
	out := bufio.NewWriterSize(os.Stdout, 1<<20)
	for {
		line, err := in.ReadString('\n')
		if len(line) > 0 {
			out.WriteString(handle(strings.TrimRight(line, "\r\n")))
			out.WriteByte('\n')
			out.Flush()
		}
		if err != nil {
			return
		}
	}
}
