/-
  Wire: schema types, values, and the reference encoder (the Bebop wire format).

  `enc` is written from the published wire format, not from the repository: it is
  the "reference codec" of property C03.  It does not look at the schema at all;
  a value carries enough structure to determine its bytes.
-/
import Bebop.Bytes
import Bebop.Generated.Facts

namespace Bebop

/-- A value as it appears on the wire.

* `scalar w n`: a `w`-byte little-endian scalar with bit pattern `n` (bool, all
  integer widths, enums, float bits, date ticks).
* `str`: u32 length + bytes.  `guid`: 16 bytes in Go array order.
* `arr`, `map`: u32 count + elements / entries.  The order of `map` entries is the
  order on the wire; Go maps have no order, so values are compared up to it.
* `struct`: fields in order.  `msg`: (index, value) of the fields that are present.
* `union d v`: discriminator and the one member that is set.  `d ≥ 256` is used
  for "no member set" (what the decoders produce for an unknown discriminator). -/
inductive Val where
  | scalar (w : Nat) (n : Nat)
  | str (bs : List Byte)
  | guid (bs : List Byte)
  | arr (vs : List Val)
  | map (kvs : List (Val × Val))
  | struct (fs : List Val)
  | msg (fs : List (Nat × Val))
  | union (disc : Nat) (v : Val)
  deriving Inhabited

/-- Field types.  Enums are `scalar w` of their base width.  `ref n` names the
    `n`-th record definition of the environment. -/
inductive Ty where
  | bool | scalar (w : Nat) | f32 | f64 | date | str | guid
  | arr (t : Ty) | map (k : Ty) (v : Ty) | ref (n : Nat)
  deriving Inhabited, DecidableEq, Repr

structure MsgField where
  idx : Nat
  ty : Ty
  deprecated : Bool
  deriving Inhabited, DecidableEq, Repr

inductive Def where
  | struct (fields : List Ty)
  | msg (fields : List MsgField)
  | union (branches : List (Nat × Nat))
  deriving Inhabited, Repr

abbrev Env := List Def

/-- GUIDs are stored on the wire in the .NET mixed-endian field order. The table is
    regenerated from `iohelp.WriteGUIDBytes`. -/
def guidWire (bs : List Byte) : List Byte := Facts.guidWritePerm.map (fun i => bs.getD i 0)
/-- and read back with the table regenerated from `iohelp.ReadGUIDBytes`. -/
def guidRead (bs : List Byte) : List Byte := Facts.guidReadPerm.map (fun i => bs.getD i 0)

/-- The .NET field order, written independently of the repository (Data1 u32 LE, Data2 u16 LE,
    Data3 u16 LE, Data4 8 bytes). -/
def guidSpecPerm : List Nat := [3, 2, 1, 0, 5, 4, 7, 6, 8, 9, 10, 11, 12, 13, 14, 15]

mutual
/-- Reference encoder. -/
def enc : Val → List Byte
  | .scalar w n => leBytes w n
  | .str bs => leBytes 4 bs.length ++ bs
  | .guid bs => guidWire bs
  | .arr vs => leBytes 4 vs.length ++ encList vs
  | .map kvs => leBytes 4 kvs.length ++ encKVs kvs
  | .struct fs => encList fs
  | .msg fs => leBytes 4 ((encFields fs).length + 1) ++ encFields fs ++ [0]
  | .union d v => leBytes 4 (enc v).length ++ [UInt8.ofNat d] ++ enc v
def encList : List Val → List Byte
  | [] => []
  | v :: vs => enc v ++ encList vs
def encKVs : List (Val × Val) → List Byte
  | [] => []
  | (k, v) :: kvs => enc k ++ enc v ++ encKVs kvs
def encFields : List (Nat × Val) → List Byte
  | [] => []
  | (i, v) :: fs => UInt8.ofNat i :: enc v ++ encFields fs
end

mutual
/-- What the generated `Size()` computes for a value WITHOUT deprecated message fields — every value the
    encoders emit as it stands (`wt`) — and therefore the length of the encoding (`length_enc`); the
    fixed-size array short cut is the lemma `vsize_arr_fixed`.  `Size()` in general — also for what a
    decoder returns after it met a deprecated field on the wire — is `gsize` below; the two coincide on
    well-typed values (`gsize_eq_vsize_of_wt`). -/
def vsize : Val → Nat
  | .scalar w _ => w
  | .str bs => 4 + bs.length
  | .guid _ => 16
  | .arr vs => 4 + vsizeList vs
  | .map kvs => 4 + vsizeKVs kvs
  | .struct fs => vsizeList fs
  | .msg fs => Facts.msgSizeBase + vsizeFields fs
  | .union _ v => Facts.unionSizeBase + 1 + vsize v
def vsizeList : List Val → Nat
  | [] => 0
  | v :: vs => vsize v + vsizeList vs
def vsizeKVs : List (Val × Val) → Nat
  | [] => 0
  | (k, v) :: kvs => vsize k + vsize v + vsizeKVs kvs
def vsizeFields : List (Nat × Val) → Nat
  | [] => 0
  | (_, v) :: fs => 1 + vsize v + vsizeFields fs
end

mutual
/-- The generated `Size()` in general: type-directed, because a message's `Size()` SKIPS the fields its
    definition marks `[deprecated]` (they are decoded, but neither encoded nor counted).  This is the
    number the byte-slice decoders step over a nested record with (`dec`).  On a value whose shape does
    not fit the type it falls back to `vsize`; the union with no member set (`emptyUnion`, discriminator
    256, which is all the decoders produce for an unknown discriminator) gets the number `vsize` gives it. -/
def gsize (env : Env) (ty : Ty) : Val → Nat
  | .scalar w _ => w
  | .str bs => 4 + bs.length
  | .guid _ => 16
  | .arr vs =>
    match ty with
    | .arr t => 4 + gsizeList env t vs
    | _ => vsize (.arr vs)
  | .map kvs =>
    match ty with
    | .map k t => 4 + gsizeKVs env k t kvs
    | _ => vsize (.map kvs)
  | .struct fs =>
    match ty with
    | .ref n =>
      match env[n]? with
      | some (.struct tys) => gsizeStruct env tys fs
      | _ => vsize (.struct fs)
    | _ => vsize (.struct fs)
  | .msg fs =>
    match ty with
    | .ref n =>
      match env[n]? with
      | some (.msg fds) => Facts.msgSizeBase + gsizeFields env fds fs
      | _ => vsize (.msg fs)
    | _ => vsize (.msg fs)
  | .union d v =>
    match ty with
    | .ref n =>
      match env[n]? with
      | some (.union brs) =>
        match brs.lookup d with
        | some m => Facts.unionSizeBase + 1 + gsize env (.ref m) v
        | none => Facts.unionSizeBase      -- no member set (unknown discriminator): Size() is the bare 4
      | _ => vsize (.union d v)
    | _ => vsize (.union d v)
def gsizeList (env : Env) (t : Ty) : List Val → Nat
  | [] => 0
  | v :: vs => gsize env t v + gsizeList env t vs
/-- Map keys are primitives, for which `gsize` is `vsize` whatever the type (`gsize_key`). -/
def gsizeKVs (env : Env) (k t : Ty) : List (Val × Val) → Nat
  | [] => 0
  | (a, b) :: kvs => gsize env k a + gsize env t b + gsizeKVs env k t kvs
/-- Struct fields against their types, position by position. -/
def gsizeStruct (env : Env) : List Ty → List Val → Nat
  | t :: ts, v :: vs => gsize env t v + gsizeStruct env ts vs
  | _, _ => 0
/-- A present field counts `1 + Size()` of its value unless its definition is marked deprecated; an index
    the definition does not know (no decoder produces one) counts nothing. -/
def gsizeFields (env : Env) (fds : List MsgField) : List (Nat × Val) → Nat
  | [] => 0
  | (i, v) :: fs =>
    (match fds.find? (fun fd => fd.idx == i) with
     | some fd => if fd.deprecated = true then 0 else 1 + gsize env fd.ty v
     | none => 0) + gsizeFields env fds fs
end

mutual
/-- Nesting depth, the amount of decoder fuel a value needs. -/
def rank : Val → Nat
  | .scalar _ _ => 0
  | .str _ => 0
  | .guid _ => 0
  | .arr vs => 1 + rankList vs
  | .map kvs => 1 + rankKVs kvs
  | .struct fs => 2 + rankList fs
  | .msg fs => 2 + rankFields fs
  | .union _ v => 2 + rank v
def rankList : List Val → Nat
  | [] => 0
  | v :: vs => max (rank v) (rankList vs)
def rankKVs : List (Val × Val) → Nat
  | [] => 0
  | (k, v) :: kvs => max (max (rank k) (rank v)) (rankKVs kvs)
def rankFields : List (Nat × Val) → Nat
  | [] => 0
  | (_, v) :: fs => max (rank v) (rankFields fs)
end

/-- Wire size of the types whose encoding has a constant length (regenerated table
    `fixedSizeTypes`; enums are `scalar` of their base width). -/
def fixedSize : Ty → Option Nat
  | .bool => some Facts.szBool
  | .scalar w => some w
  | .f32 => some Facts.szFloat32
  | .f64 => some Facts.szFloat64
  | .date => some Facts.szDate
  | .guid => some Facts.szGuid
  | _ => none

def isNaN32 (n : Nat) : Bool := (n / 2^23) % 256 == 255 && n % 2^23 != 0
def isNaN64 (n : Nat) : Bool := (n / 2^52) % 2048 == 2047 && n % 2^52 != 0

/-- Go's `==` on decoded map keys of type `kt`. -/
def keyEq (kt : Ty) (a b : Val) : Bool :=
  match kt, a, b with
  | .f32, .scalar _ x, .scalar _ y =>
      (x == y && !isNaN32 x) || (x % 2^31 == 0 && y % 2^31 == 0)
  | .f64, .scalar _ x, .scalar _ y =>
      (x == y && !isNaN64 x) || (x % 2^63 == 0 && y % 2^63 == 0)
  | _, .scalar _ x, .scalar _ y => x == y
  | _, .str x, .str y => x == y
  | _, .guid x, .guid y => x == y
  | _, _, _ => false

/-- Two's complement reading of a 64-bit pattern. -/
def toInt64 (n : Nat) : Int := if n % 2^64 < 2^63 then (n % 2^64 : Nat) else (n % 2^64 : Nat) - (2^64 : Nat)
def ofInt64 (i : Int) : Nat := (i % (2^64 : Nat)).toNat

/-- What `ReadDateBytes` followed by re-encoding does to a tick count: multiply by 100 in
    int64 (wrapping), 0 ↦ zero time, otherwise `UnixNano()/100` (truncating). -/
def dateNorm (n : Nat) : Nat :=
  let tm := toInt64 (ofInt64 (toInt64 n * 100))
  if tm == 0 then 0 else ofInt64 (tm.tdiv 100)

/-- Tick counts that survive: `ticks * 100` fits in int64. -/
def dateOk (n : Nat) : Prop := n < 2^64 ∧ -(2^63 : Int) ≤ toInt64 n * 100 ∧ toInt64 n * 100 < (2^63 : Int)

instance (n : Nat) : Decidable (dateOk n) := by unfold dateOk; exact inferInstance

/-- How many zero-progress loop iterations the model is willing to replay (see `decN`). -/
def loopSlack : Nat := 65536

/-- Either few elements, or every element occupies at least one byte on the wire. Arrays of more than
    `loopSlack` zero-size elements (empty structs) are outside the model: it declines them. -/
def Progress (vs : List Val) : Prop := vs.length ≤ loopSlack ∨ ∀ v ∈ vs, 0 < vsize v

def keysDistinct (kt : Ty) : List (Val × Val) → Prop
  | [] => True
  | (k, _) :: kvs => (∀ kv ∈ kvs, keyEq kt k kv.1 = false) ∧ keysDistinct kt kvs

/-- Key types: any primitive. -/
def isKeyTy : Ty → Bool
  | .arr _ | .map _ _ | .ref _ => false
  | _ => true

mutual
/-- `wt env ty v`: `v` is a value of type `ty` that a Go program can hold and the wire can
    carry: lengths and counts fit in u32, scalars fit their width, bools are 0/1, dates are in
    the range where `UnixNano` is defined, map keys are pairwise distinct under Go `==`, a
    message holds known, NON-DEPRECATED, non-zero indices in ascending order, a union holds exactly one
    member.  Deprecated fields are excluded because the encoders never write them: a well-typed value is
    one the encoders emit as it stands (the harness strips deprecated fields before comparing). -/
def wt (env : Env) (ty : Ty) : Val → Prop
  | .scalar w n => n < 256 ^ w ∧
      ((ty = .scalar w ∧ 0 < w) ∨ (ty = .bool ∧ w = 1 ∧ n ≤ 1) ∨ (ty = .f32 ∧ w = 4) ∨ (ty = .f64 ∧ w = 8)
        ∨ (ty = .date ∧ w = 8 ∧ dateOk n))
  | .str bs => ty = .str ∧ bs.length < 2^32
  | .guid bs => ty = .guid ∧ bs.length = 16
  | .arr vs => ∃ t, ty = .arr t ∧ vs.length < 2^32 ∧ wtList env t vs ∧ Progress vs
  | .map kvs => ∃ k t, ty = .map k t ∧ isKeyTy k = true ∧ kvs.length < 2^32 ∧ wtKVs env k t kvs ∧ keysDistinct k kvs
  | .struct fs => ∃ n tys, ty = .ref n ∧ env[n]? = some (.struct tys) ∧ wtStruct env tys fs
  | .msg fs => ∃ n fds, ty = .ref n ∧ env[n]? = some (.msg fds) ∧ wtMsg env fds 0 fs
      ∧ vsizeFields fs + 1 < 2^32
  | .union d v => ∃ n brs m, ty = .ref n ∧ env[n]? = some (.union brs) ∧ d < 256 ∧
      brs.lookup d = some m ∧ wt env (.ref m) v ∧ vsize v < 2^32
def wtList (env : Env) (t : Ty) : List Val → Prop
  | [] => True
  | v :: vs => wt env t v ∧ wtList env t vs
def wtKVs (env : Env) (k t : Ty) : List (Val × Val) → Prop
  | [] => True
  | (a, b) :: kvs => wt env k a ∧ wt env t b ∧ wtKVs env k t kvs
def wtStruct (env : Env) : List Ty → List Val → Prop
  | [], [] => True
  | t :: ts, v :: vs => wt env t v ∧ wtStruct env ts vs
  | _, _ => False
/-- `lo`: every index must exceed the previous one (ascending order, no repeats). -/
def wtMsg (env : Env) (fds : List MsgField) (lo : Nat) : List (Nat × Val) → Prop
  | [] => True
  | (i, v) :: fs => lo < i ∧ i < 256 ∧
      (∃ fd, fds.find? (fun fd => fd.idx == i) = some fd ∧ fd.deprecated = false ∧ wt env fd.ty v) ∧
      wtMsg env fds i fs
end

/-- What the parser and validator guarantee about an accepted schema, as far as the codecs care:
    message indices are 1..255 and unique, union discriminators are below 256. -/
def DefOk : Def → Prop
  | .struct _ => True
  | .msg fds => ∀ fd ∈ fds, 0 < fd.idx ∧ fd.idx < 256
  | .union brs => ∀ br ∈ brs, br.1 < 256

def EnvOk (env : Env) : Prop := ∀ d ∈ env, DefOk d

end Bebop
