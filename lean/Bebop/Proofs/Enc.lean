/-
  Helper lemmas about the reference encoder, Size() and MarshalBebopTo.
-/
import Bebop.Slice

namespace Bebop

@[simp] theorem length_guidWire (bs : List Byte) : (guidWire bs).length = 16 := by
  simp [guidWire, Facts.guidWritePerm]

mutual
theorem length_enc : (v : Val) → (enc v).length = vsize v
  | .scalar w n => by simp [enc, vsize]
  | .str bs => by simp [enc, vsize]
  | .guid bs => by simp [enc, vsize]
  | .arr vs => by simp [enc, vsize, length_encList vs]
  | .map kvs => by simp [enc, vsize, length_encKVs kvs]
  | .struct fs => by simp [enc, vsize, length_encList fs]
  | .msg fs => by simp [enc, vsize, length_encFields fs, Facts.msgSizeBase]; omega
  | .union d v => by simp [enc, vsize, length_enc v, Facts.unionSizeBase]; omega
theorem length_encList : (vs : List Val) → (encList vs).length = vsizeList vs
  | [] => rfl
  | v :: vs => by simp [encList, vsizeList, length_enc v, length_encList vs]
theorem length_encKVs : (kvs : List (Val × Val)) → (encKVs kvs).length = vsizeKVs kvs
  | [] => rfl
  | (k, v) :: kvs => by simp [encKVs, vsizeKVs, length_enc k, length_enc v, length_encKVs kvs]; omega
theorem length_encFields : (fs : List (Nat × Val)) → (encFields fs).length = vsizeFields fs
  | [] => rfl
  | (i, v) :: fs => by simp [encFields, vsizeFields, length_enc v, length_encFields fs]; omega
end

mutual
/-- The statements `MarshalBebopTo` executes store exactly the reference encoding. -/
theorem flatten_pieces : (v : Val) → (pieces v).flatten = enc v
  | .scalar w n => by simp [pieces, enc]
  | .str bs => by simp [pieces, enc]
  | .guid bs => by simp [pieces, enc]
  | .arr vs => by simp [pieces, enc, flatten_piecesList vs]
  | .map kvs => by simp [pieces, enc, flatten_piecesKVs kvs]
  | .struct fs => by simp [pieces, enc, flatten_piecesList fs]
  | .msg fs => by
      have h : vsize (.msg fs) - Facts.msgLenAdjust = (encFields fs).length + 1 := by
        simp [vsize, Facts.msgSizeBase, Facts.msgLenAdjust, length_encFields]; omega
      simp [pieces, enc, flatten_piecesFields fs, h]
  | .union d v => by
      have h : vsize (.union d v) - Facts.unionLenAdjust = (enc v).length := by
        simp [vsize, Facts.unionSizeBase, Facts.unionLenAdjust, length_enc]
      simp [pieces, enc, flatten_pieces v, h]
theorem flatten_piecesList : (vs : List Val) → (piecesList vs).flatten = encList vs
  | [] => rfl
  | v :: vs => by simp [piecesList, encList, flatten_pieces v, flatten_piecesList vs]
theorem flatten_piecesKVs : (kvs : List (Val × Val)) → (piecesKVs kvs).flatten = encKVs kvs
  | [] => rfl
  | (k, v) :: kvs => by simp [piecesKVs, encKVs, flatten_pieces k, flatten_pieces v, flatten_piecesKVs kvs]
theorem flatten_piecesFields : (fs : List (Nat × Val)) → (piecesFields fs).flatten = encFields fs
  | [] => rfl
  | (i, v) :: fs => by simp [piecesFields, encFields, flatten_pieces v, flatten_piecesFields fs]
end

/-- Storing pieces one after another overwrites exactly the window they cover. -/
theorem writePieces_eq (ps : List (List Byte)) (buf : List Byte) (at_ : Nat)
    (h : at_ + ps.flatten.length ≤ buf.length) :
    writePieces ps buf at_ =
      some (buf.take at_ ++ ps.flatten ++ buf.drop (at_ + ps.flatten.length), at_ + ps.flatten.length) := by
  induction ps generalizing buf at_ with
  | nil => simp [writePieces]
  | cons p ps ih =>
    simp only [List.flatten_cons, List.length_append] at h
    have hp : at_ + p.length ≤ buf.length := by omega
    simp only [writePieces, writeAt, hp, if_true]
    have hlen : (buf.take at_ ++ p ++ buf.drop (at_ + p.length)).length = buf.length := by
      simp [List.length_take, List.length_drop]; omega
    have hle : at_ + p.length + ps.flatten.length ≤ (buf.take at_ ++ p ++ buf.drop (at_ + p.length)).length := by
      rw [hlen]; omega
    have hl : (buf.take at_ ++ p).length = at_ + p.length := by
      simp [List.length_take]; omega
    have h1 : (buf.take at_ ++ p ++ buf.drop (at_ + p.length)).take (at_ + p.length) = buf.take at_ ++ p := by
      rw [← hl, List.take_left']
      rfl
    have h2 : (buf.take at_ ++ p ++ buf.drop (at_ + p.length)).drop (at_ + p.length + ps.flatten.length)
        = buf.drop (at_ + (p.length + ps.flatten.length)) := by
      rw [List.drop_append, hl, List.drop_of_length_le (by rw [hl]; omega), List.nil_append, List.drop_drop]
      congr 1; omega
    rw [ih _ _ hle, h1, h2]
    simp [List.append_assoc, Nat.add_assoc]

end Bebop
