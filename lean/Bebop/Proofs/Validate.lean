/-
  Helper lemmas about the File.Validate model (Bebop.Text.Validate): what a successful run of each of the
  four definition loops establishes, and the usage-closure argument for the infinite-struct check.
  The property theorems themselves are in Bebop.Props.C13.
-/
import Bebop.Text.Validate

namespace Bebop.Text

/-! ### dupIn -/

theorem dupIn_eq_false_iff {α} [BEq α] [LawfulBEq α] (l : List α) : dupIn l = false ↔ l.Nodup := by
  induction l with
  | nil => simp [dupIn]
  | cons a rest ih => simp [dupIn, List.nodup_cons, ih]

theorem nodup_append_singleton {α} {l : List α} {a : α} : (l ++ [a]).Nodup ↔ l.Nodup ∧ a ∉ l := by
  rw [List.nodup_append]
  constructor
  · rintro ⟨h1, _, h3⟩
    exact ⟨h1, fun hm => h3 a hm a (by simp) rfl⟩
  · rintro ⟨h1, h2⟩
    refine ⟨h1, by simp, ?_⟩
    intro x hx b hb
    simp at hb
    subst hb
    intro e
    subst e
    exact h2 hx

theorem dupIn_append_singleton {α} [BEq α] [LawfulBEq α] (l : List α) (a : α) :
    dupIn (l ++ [a]) = false ↔ dupIn l = false ∧ l.contains a = false := by
  rw [dupIn_eq_false_iff, dupIn_eq_false_iff, nodup_append_singleton]
  simp

/-! ### The four definition loops -/

theorem enums_inr (es : List Enum) (custom c : List Str) (h : validate.enums es custom = .inr c) :
    c = custom ++ es.map (·.name) ∧
    (∀ e ∈ es, isPrimitiveName e.name = false ∧ dupIn (e.options.map (·.name)) = false ∧
      (if e.unsigned then dupIn (e.options.map (·.uvalue)) else dupIn (e.options.map (·.value))) = false) ∧
    (custom.Nodup → c.Nodup) := by
  induction es generalizing custom with
  | nil =>
    simp only [validate.enums, Sum.inr.injEq] at h
    subst h
    simp
  | cons e rest ih =>
    simp only [validate.enums] at h
    split at h
    · cases h
    split at h
    · cases h
    split at h
    · cases h
    rename_i h1 h2 h3
    by_cases h4 : (if e.unsigned then dupIn (e.options.map (·.uvalue)) else dupIn (e.options.map (·.value))) = true
    · rw [if_pos h4] at h
      cases h
    rw [if_neg h4] at h
    obtain ⟨hc, hall, hnd⟩ := ih _ h
    refine ⟨by simp [hc], ?_, ?_⟩
    · intro e' he'
      rcases List.mem_cons.1 he' with rfl | hm
      · exact ⟨by simpa using h1, by simpa using h3, by simpa using h4⟩
      · exact hall e' hm
    · intro hcn
      apply hnd
      rw [nodup_append_singleton]
      exact ⟨hcn, by simpa using h2⟩

theorem ops_step_nodup (ops : List Nat) (oc : Nat) (h : ¬ ((oc != 0 && ops.contains oc) = true)) (hn : ops.Nodup) :
    (if (oc != 0) = true then ops ++ [oc] else ops).Nodup := by
  split
  · rename_i h0
    rw [nodup_append_singleton]
    refine ⟨hn, ?_⟩
    intro hm
    apply h
    simp [h0, hm]
  · exact hn

theorem ops_step_eq (ops : List Nat) (oc : Nat) (rest : List Nat) :
    (if (oc != 0) = true then ops ++ [oc] else ops) ++ rest.filter (· != 0) = ops ++ (oc :: rest).filter (· != 0) := by
  by_cases h0 : (oc != 0) = true
  · simp [h0]
  · simp [h0]

theorem structs_inr (ss : List Struct) (custom c : List Str) (ops o : List Nat)
    (h : validate.structs ss custom ops = .inr (c, o)) :
    c = custom ++ ss.map (·.name) ∧ o = ops ++ (ss.map (·.opCode)).filter (· != 0) ∧
    (∀ s ∈ ss, isPrimitiveName s.name = false ∧ dupIn (s.fields.map (·.name)) = false) ∧
    (custom.Nodup → c.Nodup) ∧ (ops.Nodup → o.Nodup) := by
  induction ss generalizing custom ops with
  | nil =>
    simp only [validate.structs, Sum.inr.injEq, Prod.mk.injEq] at h
    obtain ⟨rfl, rfl⟩ := h
    simp
  | cons s rest ih =>
    simp only [validate.structs] at h
    split at h
    · cases h
    split at h
    · cases h
    split at h
    · cases h
    split at h
    · cases h
    rename_i h1 h2 h3 h4
    obtain ⟨hc, ho, hall, hnd, hno⟩ := ih _ _ h
    refine ⟨by simp [hc], ?_, ?_, ?_, ?_⟩
    · rw [ho, List.map_cons, ops_step_eq]
    · intro s' hs'
      rcases List.mem_cons.1 hs' with rfl | hm
      · exact ⟨by simpa using h1, by simpa using h3⟩
      · exact hall s' hm
    · intro hcn
      apply hnd
      rw [nodup_append_singleton]
      exact ⟨hcn, by simpa using h2⟩
    · intro hon
      exact hno (ops_step_nodup ops s.opCode h4 hon)

theorem messages_inr (ms : List Message) (custom c : List Str) (ops o : List Nat)
    (h : validate.messages ms custom ops = .inr (c, o)) :
    c = custom ++ ms.map (·.name) ∧ o = ops ++ (ms.map (·.opCode)).filter (· != 0) ∧
    (∀ m ∈ ms, isPrimitiveName m.name = false ∧ dupIn (m.fields.map (·.2.name)) = false) ∧
    (custom.Nodup → c.Nodup) ∧ (ops.Nodup → o.Nodup) := by
  induction ms generalizing custom ops with
  | nil =>
    simp only [validate.messages, Sum.inr.injEq, Prod.mk.injEq] at h
    obtain ⟨rfl, rfl⟩ := h
    simp
  | cons s rest ih =>
    simp only [validate.messages] at h
    split at h
    · cases h
    split at h
    · cases h
    split at h
    · cases h
    split at h
    · cases h
    rename_i h1 h2 h3 h4
    obtain ⟨hc, ho, hall, hnd, hno⟩ := ih _ _ h
    refine ⟨by simp [hc], ?_, ?_, ?_, ?_⟩
    · rw [ho, List.map_cons, ops_step_eq]
    · intro s' hs'
      rcases List.mem_cons.1 hs' with rfl | hm
      · exact ⟨by simpa using h1, by simpa using h3⟩
      · exact hall s' hm
    · intro hcn
      apply hnd
      rw [nodup_append_singleton]
      exact ⟨hcn, by simpa using h2⟩
    · intro hon
      exact hno (ops_step_nodup ops s.opCode h4 hon)

theorem unions_inr (us : List Union) (custom c : List Str) (ops o : List Nat)
    (h : validate.unions us custom ops = .inr (c, o)) :
    c = custom ++ us.map (·.name) ∧ o = ops ++ (us.map (·.opCode)).filter (· != 0) ∧
    (∀ u ∈ us, isPrimitiveName u.name = false ∧ dupIn (u.fields.map (fun p => unionFieldName p.2)) = false) ∧
    (custom.Nodup → c.Nodup) ∧ (ops.Nodup → o.Nodup) := by
  induction us generalizing custom ops with
  | nil =>
    simp only [validate.unions, Sum.inr.injEq, Prod.mk.injEq] at h
    obtain ⟨rfl, rfl⟩ := h
    simp
  | cons s rest ih =>
    simp only [validate.unions] at h
    split at h
    · cases h
    split at h
    · cases h
    split at h
    · cases h
    split at h
    · cases h
    rename_i h1 h2 h3 h4
    obtain ⟨hc, ho, hall, hnd, hno⟩ := ih _ _ h
    refine ⟨by simp [hc], ?_, ?_, ?_, ?_⟩
    · rw [ho, List.map_cons, ops_step_eq]
    · intro s' hs'
      rcases List.mem_cons.1 hs' with rfl | hm
      · exact ⟨by simpa using h1, by simpa using h3⟩
      · exact hall s' hm
    · intro hcn
      apply hnd
      rw [nodup_append_singleton]
      exact ⟨hcn, by simpa using h2⟩
    · intro hon
      exact hno (ops_step_nodup ops s.opCode h4 hon)

/-! ### The loops only ever fail with `.err` -/

theorem enums_ne_ok (es : List Enum) (custom : List Str) : validate.enums es custom ≠ .inl .ok := by
  induction es generalizing custom with
  | nil => simp [validate.enums]
  | cons e rest ih =>
    simp only [validate.enums]
    split
    · simp
    split
    · simp
    split
    · simp
    by_cases h4 : (if e.unsigned then dupIn (e.options.map (·.uvalue)) else dupIn (e.options.map (·.value))) = true
    · rw [if_pos h4]; simp
    · rw [if_neg h4]; exact ih _

theorem structs_ne_ok (ss : List Struct) (custom : List Str) (ops : List Nat) :
    validate.structs ss custom ops ≠ .inl .ok := by
  induction ss generalizing custom ops with
  | nil => simp [validate.structs]
  | cons e rest ih =>
    simp only [validate.structs]
    split
    · simp
    split
    · simp
    split
    · simp
    split
    · simp
    exact ih _ _

theorem messages_ne_ok (ms : List Message) (custom : List Str) (ops : List Nat) :
    validate.messages ms custom ops ≠ .inl .ok := by
  induction ms generalizing custom ops with
  | nil => simp [validate.messages]
  | cons e rest ih =>
    simp only [validate.messages]
    split
    · simp
    split
    · simp
    split
    · simp
    split
    · simp
    exact ih _ _

theorem unions_ne_ok (us : List Union) (custom : List Str) (ops : List Nat) :
    validate.unions us custom ops ≠ .inl .ok := by
  induction us generalizing custom ops with
  | nil => simp [validate.unions]
  | cons e rest ih =>
    simp only [validate.unions]
    split
    · simp
    split
    · simp
    split
    · simp
    split
    · simp
    exact ih _ _

/-! ### What `validate f = .ok` went through -/

/-- `usage0` of `validate`. -/
def usage0Of (f : File) : List (Str × List Str) := f.structs.map (fun s => (s.name, usedTypesStruct s))
/-- `bound` of `validate`. -/
def boundOf (f : File) : Nat :=
  (usage0Of f).length * ((usage0Of f).length + ((usage0Of f).foldl (fun n p => n + p.2.length) 0)) + 1
/-- `usage` of `validate`: the computed closure. -/
def closureOf (f : File) : List (Str × List Str) := usageClosure (boundOf f) (usage0Of f)

theorem validate_ok_inv (f : File) (h : validate f = .ok) :
    dupIn (f.consts.map (·.name)) = false ∧
    ∃ c1 c2 o2 c3 o3 c4 o4,
      validate.enums f.enums [] = .inr c1 ∧
      validate.structs f.structs c1 [] = .inr (c2, o2) ∧
      validate.messages f.messages c2 o2 = .inr (c3, o3) ∧
      validate.unions f.unions c3 o3 = .inr (c4, o4) ∧
      f.structs.all (fun s => s.fields.all (fun fd => typeDefined (c4 ++ Facts.primitiveTypeNames.map strOf) fd.ft)) = true ∧
      f.messages.all (fun m => m.fields.all (fun p => typeDefined (c4 ++ Facts.primitiveTypeNames.map strOf) p.2.ft)) = true ∧
      (closureOf f).any (fun p => p.2.contains p.1) = false := by
  unfold validate at h
  split at h
  · cases h
  rename_i hc
  refine ⟨by simpa using hc, ?_⟩
  split at h
  · rename_i heq; subst h; exact absurd heq (enums_ne_ok _ _)
  rename_i c1 he
  split at h
  · rename_i heq; subst h; exact absurd heq (structs_ne_ok _ _ _)
  rename_i c2 o2 hs
  split at h
  · rename_i heq; subst h; exact absurd heq (messages_ne_ok _ _ _)
  rename_i c3 o3 hm
  split at h
  · rename_i heq; subst h; exact absurd heq (unions_ne_ok _ _ _)
  rename_i c4 o4 hu
  refine ⟨c1, c2, o2, c3, o3, c4, o4, he, hs, hm, hu, ?_⟩
  dsimp only at h
  split at h
  · cases h
  rename_i h1
  split at h
  · cases h
  rename_i h2
  split at h
  · cases h
  rename_i h3
  refine ⟨by simpa using h1, by simpa using h2, ?_⟩
  have h3' : ¬ (closureOf f).any (fun p => p.2.contains p.1) = true := h3
  simpa using h3'

end Bebop.Text
