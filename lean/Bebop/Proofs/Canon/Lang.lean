/-
  Canon/Lang: the extended sub-language — abstract syntax, the lexeme list of a schema (tokens with their
  canonical spacing), the `File` it denotes, and well-formedness of the lexeme list (so that the generic
  lexing theorem applies).

  Canonical text of a schema: `canonTextF f = renderC (fileLex false f)`; laid-out texts:
  `laidOutF w f = render w 0 (fileLex false f)`.
-/
import Bebop.Text.Parser
import Bebop.Proofs.Canon.Gen
import Bebop.Proofs.Canon.Defs

namespace Bebop.Text

/-! ### abstract syntax -/

/-- Field types: `Name`, `array[T]`, `map[Key, V]`, each followed by `k` pairs of brackets `[]`. -/
inductive CType where
  | name (n : Str) (k : Nat)
  | array (t : CType) (k : Nat)
  | map (key : Str) (v : CType) (k : Nat)

/-- A struct field: `// doc` lines, an optional `[deprecated("msg")]` line, `Type name;` and an optional
    trailing `// comment` on the same line. -/
structure CField where
  doc : List Str := []
  dep : Option Str
  ty : CType
  name : Str
  trail : Option Str := none

/-- The value of an `[opcode(…)]` attribute: an integer literal or a four-character string. -/
inductive OpLit where
  | num (lit : Str)
  | str (s : Str)

/-- A message field `idx -> Type name;`, optionally preceded by a `[deprecated("msg")]` line. -/
structure CMsgField where
  doc : List Str := []
  dep : Option Str
  idx : Str
  ty : CType
  name : Str
  /-- a trailing `// comment` on the field's line: the parser skips it; the formatter moves it to a line of
      its own, where it becomes a doc comment of the next field (finding F2) — so it is part of the language
      of the parser theorems only -/
  trail : Option Str := none

/-- The tokens of an enum member's value: in an ordinary enum a single literal; in a `[flags]` enum an
    expression over literals, earlier members, `|`, `&`, `<<`, `>>` and parentheses. -/
inductive ETok where
  | lit (s : Str)
  | ref (name : Str)
  | bar | amp | shl | shr | lp | rp

/-- An enum member `Name = value;`, optionally preceded by doc lines and a `[deprecated("msg")]` line. -/
structure CEnumOpt where
  doc : List Str := []
  dep : Option Str
  name : Str
  val : List ETok

/-- The value of a constant: an integer literal for a type `ty`, `true` / `false`, or a plain string. -/
inductive CConstV where
  | int (ty lit : Str)
  | bool (v : Bool)
  | str (body : Str)
  /-- a float literal `[-]ip.fp` for a float type -/
  | float (ty : Str) (neg : Bool) (ip fp : Str)
  /-- `inf`, `-inf`, `nan` for a float type -/
  | inf (ty : Str)
  | negInf (ty : Str)
  | nan (ty : Str)
  /-- a guid in quotes: 32 characters besides the dashes -/
  | guid (body : Str)

/-- A union member `idx -> struct Name { … }` / `idx -> message Name { … }`, optionally preceded by a
    `[deprecated("msg")]` line. -/
inductive CUMember where
  | struct (doc : List Str) (dep : Option Str) (idx : Str) (name : Str) (fields : List CField)
  | message (doc : List Str) (dep : Option Str) (idx : Str) (name : Str) (fields : List CMsgField)

inductive CDef where
  | struct (op : Option OpLit) (ro : Bool) (name : Str) (fields : List CField)
  | message (op : Option OpLit) (name : Str) (fields : List CMsgField)
  | enum (flags : Bool) (name : Str) (base : Option Str) (opts : List CEnumOpt)
  | union (op : Option OpLit) (name : Str) (members : List CUMember)
  | const (name : Str) (v : CConstV)
  | import_ (path : Str)

/-- A top-level definition with the `// doc` lines in front of it. -/
structure CTop where
  doc : List Str := []
  d : CDef

abbrev CFile := List CTop

/-! ### denotation -/

/-- `k` array suffixes, as the parser's suffix loop applies them -/
def wrapArr : Nat → FT → FT
  | 0, ft => ft
  | k + 1, ft => wrapArr k (FT.arr ft)

def ftOf : CType → FT
  | .name n k => wrapArr k (.simple n)
  | .array t k => wrapArr k (.arr (ftOf t))
  | .map key v k => wrapArr k (.map key (ftOf v))

def depMsgOf : Option Str → Str
  | none => []
  | some m => m

/-- the comment a run of `// doc` lines denotes: the lines (without the slashes), joined by line breaks -/
def docOf (doc : List Str) : Str := joinLines doc

/-- the tags a run of `// doc` lines inside a body carries: the lines of the form `[tag(key)]` /
    `[tag(key:"value")]` (`commentTag`, the parser's own reading), in order -/
def tagsOf (doc : List Str) : List Tag := doc.filterMap (fun c => (commentTag c).getD none)

def fieldOfC (f : CField) : Field :=
  { ft := ftOf f.ty, name := f.name, comment := docOf f.doc, tags := tagsOf f.doc, depMsg := depMsgOf f.dep,
    deprecated := f.dep.isSome }

/-- the number an opcode attribute denotes (`readOpCode`): `strconv.ParseUint(lit, 0, 32)`, or the four
    bytes of the string read as a little-endian number -/
def opVal : Option OpLit → Nat
  | none => 0
  | some (.num lit) => (parseUint lit true 32).getD 0
  | some (.str s) => ofLe s

/-- the index of a message field: `strconv.ParseUint(lit, 10, 8)` -/
def idxVal (lit : Str) : Nat := (parseUint lit false 8).getD 0

def msgFieldOf (g : CMsgField) : Nat × Field :=
  (idxVal g.idx,
   { ft := ftOf g.ty, name := g.name, comment := docOf g.doc, tags := tagsOf g.doc, depMsg := depMsgOf g.dep,
     deprecated := g.dep.isSome })

def kwUint32 : Str := [117, 105, 110, 116, 51, 50]
def kwBool : Str := [98, 111, 111, 108]
def kwString : Str := [115, 116, 114, 105, 110, 103]
def kwTrue : Str := [116, 114, 117, 101]
def kwFalse : Str := [102, 97, 108, 115, 101]

/-- the base type of an enum (`uint32` when none is written) -/
def enumBase : Option Str → Str
  | none => kwUint32
  | some b => b

/-- width and signedness of an enum's base type (`decodeIntegerType`) -/
def enumBits (base : Option Str) : Nat × Bool := (decodeInteger (enumBase base)).getD (32, true)

def ETok.tok : ETok → Token
  | .lit s => { kind := .intLit, concrete := s }
  | .ref n => { kind := .ident, concrete := n }
  | .bar => { kind := .vbar, concrete := [124] }
  | .amp => { kind := .amp, concrete := [38] }
  | .shl => { kind := .dblLeft, concrete := [60, 60] }
  | .shr => { kind := .dblRight, concrete := [62, 62] }
  | .lp => { kind := .openParen, concrete := [40] }
  | .rp => { kind := .closeParen, concrete := [41] }

/-- the value of an enum member (`readEnumOptionValue`): in an ordinary enum the literal read with
    `strconv.ParseUint` / `ParseInt` (base 0) in the width of the base type; in a `[flags]` enum the model's
    own `parseExpr` / `evalExpr` on the member's tokens, `prev` being the members before it. Unsigned enums
    store the value in `uvalue` (second component), signed ones in `value` (first component). -/
def enumVal (fl : Bool) (bits : Nat) (unsigned : Bool) (prev : List EnumOption) (val : List Token) : Option (Int × Nat) :=
  if fl then
    match parseExpr (val.length + 1) val with
    | none => none
    | some e =>
      match evalExpr bits unsigned prev e with
      | none => none
      | some v => some (if unsigned then (0, v.toNat) else (v, 0))
  else
    match val with
    | [tk] =>
      if tk.kind == .intLit then
        (if unsigned then (parseUint tk.concrete true bits).map (fun n => ((0 : Int), n))
         else (parseInt tk.concrete true bits).map (fun n => (n, (0 : Nat))))
      else none
    | _ => none

def enumOptOf (fl : Bool) (bits : Nat) (unsigned : Bool) (prev : List EnumOption) (o : CEnumOpt) : EnumOption :=
  { name := o.name, comment := docOf o.doc, depMsg := depMsgOf o.dep,
    value := ((enumVal fl bits unsigned prev (o.val.map ETok.tok)).getD (0, 0)).1,
    uvalue := ((enumVal fl bits unsigned prev (o.val.map ETok.tok)).getD (0, 0)).2,
    deprecated := o.dep.isSome }

/-- the members of an enum, each evaluated with the members before it in scope -/
def enumOptsOf (fl : Bool) (bits : Nat) (unsigned : Bool) : List EnumOption → List CEnumOpt → List EnumOption
  | acc, [] => acc
  | acc, o :: os => enumOptsOf fl bits unsigned (acc ++ [enumOptOf fl bits unsigned acc o]) os

def kwGuid : Str := [103, 117, 105, 100]
def kwInf : Str := [105, 110, 102]
def kwNan : Str := [110, 97, 110]

def floatText (neg : Bool) (ip fp : Str) : Str := (if neg then [45] else []) ++ (ip ++ 46 :: fp)

def constTy : CConstV → Str
  | .int ty _ => ty
  | .bool _ => kwBool
  | .str _ => kwString
  | .float ty .. => ty
  | .inf ty => ty
  | .negInf ty => ty
  | .nan ty => ty
  | .guid _ => kwGuid

/-- the text of a constant's value, as the `File` stores it (string literals with their quotes) -/
def constVal : CConstV → Str
  | .int _ lit => lit
  | .bool v => if v then kwTrue else kwFalse
  | .str body => 34 :: (body ++ [34])
  | .float _ neg ip fp => floatText neg ip fp
  | .inf _ => strOf "math.Inf(1)"
  | .negInf _ => strOf "math.Inf(-1)"
  | .nan _ => strOf "math.NaN()"
  | .guid body => 34 :: (body ++ [34])

def CUMember.doc : CUMember → List Str
  | .struct c .. => c
  | .message c .. => c

def CUMember.dep : CUMember → Option Str
  | .struct _ d .. => d
  | .message _ d .. => d

def CUMember.idx : CUMember → Str
  | .struct _ _ i .. => i
  | .message _ _ i .. => i

def memberOf (m : CUMember) : Nat × UnionField :=
  (idxVal m.idx,
   { body := (match m with
        | .struct doc _ _ name fields =>
          UBody.st { name := name, comment := docOf doc, fields := fields.map fieldOfC, opCode := 0, readOnly := false }
        | .message doc _ _ name fields =>
          UBody.msg { name := name, comment := docOf doc, fields := fields.map msgFieldOf, opCode := 0 }),
     tags := tagsOf m.doc, depMsg := depMsgOf m.dep, deprecated := m.dep.isSome })

def addDefC (F : File) (cs : List Str) : CDef → File
  | .struct op ro name fields =>
    { F with structs := F.structs ++
        [{ name := name, comment := joinLines cs, fields := fields.map fieldOfC, opCode := opVal op, readOnly := ro }] }
  | .message op name fields =>
    { F with messages := F.messages ++
        [{ name := name, comment := joinLines cs, fields := fields.map msgFieldOf, opCode := opVal op }] }
  | .union op name members =>
    { F with unions := F.unions ++
        [{ name := name, comment := joinLines cs, fields := members.map memberOf, opCode := opVal op }] }
  | .enum fl name base opts =>
    { F with enums := F.enums ++
        [{ name := name, comment := joinLines cs,
           options := enumOptsOf fl (enumBits base).1 (enumBits base).2 [] opts,
           simpleType := enumBase base, unsigned := (enumBits base).2 }] }
  | .const name v =>
    { F with consts := F.consts ++
        [{ simpleType := constTy v, comment := joinLines cs, name := name, value := constVal v }],
             goPackage := if strEq name "go_package" && strEq (constTy v) "string"
                          then (plainQuoted (constVal v)).getD [] else F.goPackage }
  | .import_ path => { F with imports := F.imports ++ [path] }

def addDef (F : File) (d : CTop) : File := addDefC F d.doc d.d

/-- The `File` a schema denotes: definitions grouped by kind, each group in source order. -/
def denote (f : CFile) : File := f.foldl addDef {}

/-! ### well-formedness -/

def CTypeOk : CType → Prop
  | .name n _ => IdentOk n = true
  | .array t _ => CTypeOk t
  | .map key v _ => IdentOk key = true ∧ isPrimitiveName key = true ∧ CTypeOk v

/-- A `// doc` line at top level or in an enum: any text without line break and CR. -/
def docLineOk (c : Str) : Bool := c.all (fun x => !(x == 13 || x == 10))

/-- A `// doc` line inside a struct, message or union body: moreover the parser's tag reader
    (`commentTag`) is defined on it — it is an ordinary comment, or a tag `[tag(key)]` / `[tag(key:"value")]`
    whose value is a plain string. -/
def bodyDocOk (c : Str) : Prop := docLineOk c = true ∧ (commentTag c).isSome = true

def CFieldOk (f : CField) : Prop :=
  (∀ c ∈ f.doc, bodyDocOk c) ∧ (∀ c, f.trail = some c → docLineOk c = true) ∧
  (∀ m, f.dep = some m → strBodyOk m = true) ∧ CTypeOk f.ty ∧ IdentOk f.name = true

def OpLitOk : OpLit → Prop
  | .num lit => numLitOk lit = true ∧ (parseUint lit true 32).isSome = true
  | .str s => strBodyOk s = true ∧ s.length = 4

/-- the index is a decimal literal denoting a number in 1 … 255 -/
def CMsgFieldOk (g : CMsgField) : Prop :=
  (∀ c, g.trail = some c → docLineOk c = true) ∧
  (∀ c ∈ g.doc, bodyDocOk c) ∧ (∀ m, g.dep = some m → strBodyOk m = true) ∧ numLitOk g.idx = true ∧
  (∃ n, parseUint g.idx false 8 = some n ∧ n ≠ 0) ∧ CTypeOk g.ty ∧ IdentOk g.name = true

def ETokOk : ETok → Prop
  | .lit s => numLitOk s = true
  | .ref n => IdentOk n = true
  | _ => True

/-- an enum member whose value the parser can evaluate (the literal fits the base type; the expression of a
    `[flags]` member parses and evaluates, given the members `prev` before it) -/
def CEnumOptOk (fl : Bool) (bits : Nat) (unsigned : Bool) (prev : List EnumOption) (o : CEnumOpt) : Prop :=
  (∀ c ∈ o.doc, docLineOk c = true) ∧ (∀ m, o.dep = some m → strBodyOk m = true) ∧ IdentOk o.name = true ∧
  (∀ e ∈ o.val, ETokOk e) ∧ (enumVal fl bits unsigned prev (o.val.map ETok.tok)).isSome = true

def CEnumOptsOk (fl : Bool) (bits : Nat) (unsigned : Bool) : List EnumOption → List CEnumOpt → Prop
  | _, [] => True
  | acc, o :: os =>
    CEnumOptOk fl bits unsigned acc o ∧ CEnumOptsOk fl bits unsigned (acc ++ [enumOptOf fl bits unsigned acc o]) os

def CConstVOk : CConstV → Prop
  | .int ty lit => IdentOk ty = true ∧ numLitOk lit = true ∧ (isUintName ty || isIntName ty || isFloatName ty) = true
  | .bool _ => True
  | .str body => strBodyOk body = true
  | .float ty _ ip fp =>
    IdentOk ty = true ∧ (isUintName ty || isIntName ty) = false ∧ isFloatName ty = true ∧
    ip ≠ [] ∧ ip.all isNumeric = true ∧ fp ≠ [] ∧ fp.all isNumeric = true
  | .inf ty => IdentOk ty = true ∧ (isUintName ty || isIntName ty) = false ∧ isFloatName ty = true
  | .negInf ty => IdentOk ty = true ∧ (isUintName ty || isIntName ty) = false ∧ isFloatName ty = true
  | .nan ty => IdentOk ty = true ∧ (isUintName ty || isIntName ty) = false ∧ isFloatName ty = true
  | .guid body => strBodyOk body = true ∧ (body.filter (· != 0x2d)).length = 32

/-- a union member: the index is a decimal literal denoting a number in 0 … 255; the body is a struct or a
    message body -/
def CUMemberOk : CUMember → Prop
  | .struct doc dep idx name fields =>
    (∀ c ∈ doc, bodyDocOk c) ∧ (∀ m, dep = some m → strBodyOk m = true) ∧ numLitOk idx = true ∧
    (parseUint idx false 8).isSome = true ∧ IdentOk name = true ∧ ∀ f ∈ fields, CFieldOk f
  | .message doc dep idx name fields =>
    (∀ c ∈ doc, bodyDocOk c) ∧ (∀ m, dep = some m → strBodyOk m = true) ∧ numLitOk idx = true ∧
    (parseUint idx false 8).isSome = true ∧ IdentOk name = true ∧ (∀ g ∈ fields, CMsgFieldOk g) ∧
    (fields.map (fun g => idxVal g.idx)).Nodup

def CDefOk : CDef → Prop
  | .struct op _ name fields =>
    (∀ o, op = some o → OpLitOk o) ∧ IdentOk name = true ∧ ∀ f ∈ fields, CFieldOk f
  | .message op name fields =>
    (∀ o, op = some o → OpLitOk o) ∧ IdentOk name = true ∧ (∀ g ∈ fields, CMsgFieldOk g) ∧
    (fields.map (fun g => idxVal g.idx)).Nodup
  | .union op name members =>
    (∀ o, op = some o → OpLitOk o) ∧ IdentOk name = true ∧ (∀ m ∈ members, CUMemberOk m) ∧
    (members.map (fun m => idxVal m.idx)).Nodup
  | .enum fl name base opts =>
    IdentOk name = true ∧
    (∀ b, base = some b → IdentOk b = true ∧ (isUintName b || isIntName b) = true ∧ (decodeInteger b).isSome = true) ∧
    CEnumOptsOk fl (enumBits base).1 (enumBits base).2 [] opts
  | .const name v => IdentOk name = true ∧ CConstVOk v
  | .import_ path => strBodyOk path = true

def CDef.isConst : CDef → Bool
  | .const .. => true
  | _ => false

def CDef.isImport : CDef → Bool
  | .import_ _ => true
  | _ => false

/-- doc lines are plain; an import has none -/
def CTopOk (d : CTop) : Prop :=
  (∀ c ∈ d.doc, docLineOk c = true) ∧ (d.d.isImport = true → d.doc = []) ∧ CDefOk d.d

/-- no doc lines directly after a constant (the formatter would glue them to the constant's line, where the
    parser reads them as an end-of-line comment — a C16 finding) -/
def noDocAfterConst : CFile → Prop
  | a :: b :: r => (a.d.isConst = true → b.doc = []) ∧ noDocAfterConst (b :: r)
  | _ => True

/-- Well-formed schemas for the parser theorems. -/
def CFileOkP (f : CFile) : Prop := (∀ d ∈ f, CTopOk d) ∧ noDocAfterConst f

/-- no trailing comment after a message field (the formatter would move it: finding F2) -/
def CDef.noMovedComments : CDef → Prop
  | .message _ _ fields => ∀ g ∈ fields, g.trail = none
  | .union _ _ members => ∀ m ∈ members,
      (match m with
       | .message _ _ _ _ fields => ∀ g ∈ fields, g.trail = none
       | _ => True)
  | _ => True

/-- Well-formed schemas for the formatter theorems (and the parser theorems): moreover no comment that the
    formatter would move. -/
def CFileOk (f : CFile) : Prop := CFileOkP f ∧ ∀ d ∈ f, d.d.noMovedComments

/-! ### tokens -/

def kwReadonly : Str := [114, 101, 97, 100, 111, 110, 108, 121]
def kwMessage : Str := [109, 101, 115, 115, 97, 103, 101]
def kwEnum : Str := [101, 110, 117, 109]
def kwDeprecated : Str := [100, 101, 112, 114, 101, 99, 97, 116, 101, 100]
def kwOpcode : Str := [111, 112, 99, 111, 100, 101]
def kwMap : Str := [109, 97, 112]
def kwArray : Str := [97, 114, 114, 97, 121]
def kwUnion : Str := [117, 110, 105, 111, 110]
def kwConst : Str := [99, 111, 110, 115, 116]
def kwImport : Str := [105, 109, 112, 111, 114, 116]
def kwFlags : Str := [102, 108, 97, 103, 115]

abbrev tNl : Token := { kind := .newline, concrete := [10] }
abbrev tOpen : Token := { kind := .openCurly, concrete := [123] }
abbrev tClose : Token := { kind := .closeCurly, concrete := [125] }
abbrev tSemi : Token := { kind := .semicolon, concrete := [59] }
abbrev tLB : Token := { kind := .openSquare, concrete := [91] }
abbrev tRB : Token := { kind := .closeSquare, concrete := [93] }
abbrev tLP : Token := { kind := .openParen, concrete := [40] }
abbrev tRP : Token := { kind := .closeParen, concrete := [41] }
abbrev tComma : Token := { kind := .comma, concrete := [44] }
abbrev tEq : Token := { kind := .equals, concrete := [61] }
abbrev tColon : Token := { kind := .colon, concrete := [58] }
abbrev tArrow : Token := { kind := .arrow, concrete := [45, 62] }
abbrev tId (s : Str) : Token := { kind := .ident, concrete := s }
abbrev tStr (s : Str) : Token := { kind := .strLit, concrete := 34 :: (s ++ [34]) }
abbrev tNum (s : Str) : Token := { kind := .intLit, concrete := s }

/-! ### lexemes (continuation style: `… r` is followed by the lexemes `r`) -/

/-- `k` times `[]` -/
def sufLex : Nat → List Lexeme → List Lexeme
  | 0, r => r
  | k + 1, r => ⟨[], tLB⟩ :: ⟨[], tRB⟩ :: sufLex k r

/-- a type, written after the blanks `s` -/
def typeLex : CType → List Byte → List Lexeme → List Lexeme
  | .name n k, s, r => ⟨s, tId n⟩ :: sufLex k r
  | .array t k, s, r => ⟨s, ⟨.kArray, kwArray⟩⟩ :: ⟨[], tLB⟩ :: typeLex t [] (⟨[], tRB⟩ :: sufLex k r)
  | .map key v k, s, r =>
    ⟨s, ⟨.kMap, kwMap⟩⟩ :: ⟨[], tLB⟩ :: ⟨[], tId key⟩ :: ⟨[], tComma⟩ :: typeLex v [32] (⟨[], tRB⟩ :: sufLex k r)

/-- `[deprecated("msg")]` on a line of its own, indented by `ind` -/
def depLex (ind : List Byte) : Option Str → List Lexeme → List Lexeme
  | none, r => r
  | some m, r =>
    ⟨ind, tLB⟩ :: ⟨[], ⟨.kDeprecated, kwDeprecated⟩⟩ :: ⟨[], tLP⟩ :: ⟨[], tStr m⟩ :: ⟨[], tRP⟩ :: ⟨[], tRB⟩ ::
    ⟨[], tNl⟩ :: r

abbrev tCmt (c : Str) : Token := { kind := .lineComment, concrete := 47 :: 47 :: (c ++ [10]) }

/-- `// doc` lines, each on a line of its own (the token includes the line break), indented by `ind` -/
def docLex (ind : List Byte) : List Str → List Lexeme → List Lexeme
  | [], r => r
  | c :: cs, r => ⟨ind, tCmt c⟩ :: docLex ind cs r

/-- the end of a field line: the line break, or ` // comment` (which includes the line break) -/
def trailLex : Option Str → List Lexeme → List Lexeme
  | none, r => ⟨[], tNl⟩ :: r
  | some c, r => ⟨[32], tCmt c⟩ :: r

def fieldLex (ind : List Byte) (f : CField) (r : List Lexeme) : List Lexeme :=
  docLex ind f.doc (depLex ind f.dep (typeLex f.ty ind (⟨[32], tId f.name⟩ :: ⟨[], tSemi⟩ :: trailLex f.trail r)))

/-- the field lines and the closing line of a struct body -/
def fieldsLex (ind : List Byte) : List CField → List Lexeme → List Lexeme
  | [], r => ⟨ind.dropLast, tClose⟩ :: ⟨[], tNl⟩ :: r
  | f :: fs, r => fieldLex ind f (fieldsLex ind fs r)

def opLitTok : OpLit → Token
  | .num lit => tNum lit
  | .str s => tStr s

/-- `[opcode(…)]` on a line of its own -/
def opLex : Option OpLit → List Lexeme → List Lexeme
  | none, r => r
  | some o, r =>
    ⟨[], tLB⟩ :: ⟨[], ⟨.kOpCode, kwOpcode⟩⟩ :: ⟨[], tLP⟩ :: ⟨[], opLitTok o⟩ :: ⟨[], tRP⟩ :: ⟨[], tRB⟩ ::
    ⟨[], tNl⟩ :: r

/-- `struct Name {` … `}` with the body indented by `ind`; `s`: the blanks before `struct` -/
def structLex (s ind : List Byte) (name : Str) (fields : List CField) (r : List Lexeme) : List Lexeme :=
  ⟨s, ⟨.kStruct, kwStruct⟩⟩ :: ⟨[32], tId name⟩ :: ⟨[32], tOpen⟩ :: ⟨[], tNl⟩ :: fieldsLex ind fields r

def msgFieldLex (ind : List Byte) (g : CMsgField) (r : List Lexeme) : List Lexeme :=
  docLex ind g.doc (depLex ind g.dep (⟨ind, tNum g.idx⟩ :: ⟨[32], tArrow⟩ ::
    typeLex g.ty [32] (⟨[32], tId g.name⟩ :: ⟨[], tSemi⟩ :: trailLex g.trail r)))

/-- the field lines and the closing line of a message body -/
def msgFieldsLex (ind : List Byte) : List CMsgField → List Lexeme → List Lexeme
  | [], r => ⟨ind.dropLast, tClose⟩ :: ⟨[], tNl⟩ :: r
  | g :: gs, r => msgFieldLex ind g (msgFieldsLex ind gs r)

def messageLex (s ind : List Byte) (name : Str) (fields : List CMsgField) (r : List Lexeme) : List Lexeme :=
  ⟨s, ⟨.kMessage, kwMessage⟩⟩ :: ⟨[32], tId name⟩ :: ⟨[32], tOpen⟩ :: ⟨[], tNl⟩ :: msgFieldsLex ind fields r

/-- the tokens of a member's `= value`, spaced as the formatter spaces them: one blank before every token
    except directly after `(` and directly before `)` (`prev`: the kind of the token before) -/
def spLex (prev : TK) : List Token → List Lexeme → List Lexeme
  | [], r => r
  | tk :: ts, r => ⟨if prev != .openParen && tk.kind != .closeParen then [32] else [], tk⟩ :: spLex tk.kind ts r

def enumOptLex (o : CEnumOpt) (r : List Lexeme) : List Lexeme :=
  docLex [9] o.doc (depLex [9] o.dep
    (⟨[9], tId o.name⟩ :: spLex .ident (tEq :: o.val.map ETok.tok) (⟨[], tSemi⟩ :: ⟨[], tNl⟩ :: r)))

def enumOptsLex : List CEnumOpt → List Lexeme → List Lexeme
  | [], r => ⟨[], tClose⟩ :: ⟨[], tNl⟩ :: r
  | o :: os, r => enumOptLex o (enumOptsLex os r)

/-- ` : base`, if a base type is written -/
def baseLex : Option Str → List Lexeme → List Lexeme
  | none, r => r
  | some b, r => ⟨[32], tColon⟩ :: ⟨[32], tId b⟩ :: r

def memberLex : CUMember → List Lexeme → List Lexeme
  | .struct doc dep idx name fields, r =>
    docLex [9] doc (depLex [9] dep (⟨[9], tNum idx⟩ :: ⟨[32], tArrow⟩ :: structLex [32] [9, 9] name fields r))
  | .message doc dep idx name fields, r =>
    docLex [9] doc (depLex [9] dep (⟨[9], tNum idx⟩ :: ⟨[32], tArrow⟩ :: messageLex [32] [9, 9] name fields r))

/-- the members and the closing line of a union -/
def membersLex : List CUMember → List Lexeme → List Lexeme
  | [], r => ⟨[], tClose⟩ :: ⟨[], tNl⟩ :: r
  | m :: ms, r => memberLex m (membersLex ms r)

/-- `[flags]` on a line of its own -/
def flagsLex : Bool → List Lexeme → List Lexeme
  | false, r => r
  | true, r => ⟨[], tLB⟩ :: ⟨[], ⟨.kFlags, kwFlags⟩⟩ :: ⟨[], tRB⟩ :: ⟨[], tNl⟩ :: r

def constValTok : CConstV → Token
  | .int _ lit => tNum lit
  | .bool v => if v then ⟨.kTrue, kwTrue⟩ else ⟨.kFalse, kwFalse⟩
  | .str body => tStr body
  | .float _ neg ip fp => { kind := .floatLit, concrete := floatText neg ip fp }
  | .inf _ => { kind := .kInf, concrete := kwInf }
  | .negInf _ => { kind := .negInf, concrete := [45, 105, 110, 102] }
  | .nan _ => { kind := .kNaN, concrete := kwNan }
  | .guid body => tStr body

def defLex : CDef → List Lexeme → List Lexeme
  | .struct op ro name fields, r =>
    opLex op (if ro then ⟨[], ⟨.kReadOnly, kwReadonly⟩⟩ :: structLex [32] [9] name fields r
              else structLex [] [9] name fields r)
  | .message op name fields, r => opLex op (messageLex [] [9] name fields r)
  | .enum fl name base opts, r =>
    flagsLex fl (⟨[], ⟨.kEnum, kwEnum⟩⟩ :: ⟨[32], tId name⟩ ::
      baseLex base (⟨[32], tOpen⟩ :: ⟨[], tNl⟩ :: enumOptsLex opts r))
  | .union op name members, r =>
    opLex op (⟨[], ⟨.kUnion, kwUnion⟩⟩ :: ⟨[32], tId name⟩ :: ⟨[32], tOpen⟩ :: ⟨[], tNl⟩ :: membersLex members r)
  | .const name v, r =>
    ⟨[], ⟨.kConst, kwConst⟩⟩ :: ⟨[32], tId (constTy v)⟩ :: ⟨[32], tId name⟩ :: ⟨[32], tEq⟩ ::
    ⟨[32], constValTok v⟩ :: ⟨[], tSemi⟩ :: r
  | .import_ path, r => ⟨[], ⟨.kImport, kwImport⟩⟩ :: ⟨[32], tStr path⟩ :: ⟨[], tNl⟩ :: r

/-- does the formatter put a line break (an empty line after `}`) before the definition that follows? -/
def nlAfter : CDef → Bool
  | .import_ _ => false
  | _ => true

/-- the lexemes of a file; `nl`: an empty line separates the first definition from what came before -/
def fileLex : Bool → CFile → List Lexeme
  | _, [] => []
  | nl, d :: ds =>
    (if nl && d.doc.isEmpty then [⟨[], tNl⟩] else []) ++ docLex [] d.doc (defLex d.d (fileLex (nlAfter d.d) ds))

/-- The canonical text of a schema. -/
def canonTextF (f : CFile) : Str := renderC (fileLex false f)

/-- The schema written with the layout `w`: `w k` is the run of blanks in front of the k-th token (and
    after the last one). -/
def laidOutF (w : Nat → List Byte) (f : CFile) : Str := render w 0 (fileLex false f)


/-! ### the canonical text, construct by construct (`canonTextF_eq_fileText`) -/

def sufText : Nat → Str
  | 0 => []
  | k + 1 => [91, 93] ++ sufText k

/-- `Name[]…`, `array[T][]…`, `map[Key, V][]…` -/
def typeText : CType → Str
  | .name n k => n ++ sufText k
  | .array t k => kwArray ++ [91] ++ typeText t ++ [93] ++ sufText k
  | .map key v k => kwMap ++ [91] ++ key ++ [44, 32] ++ typeText v ++ [93] ++ sufText k

/-- `[deprecated("msg")]` + line break, indented -/
def depText (ind : Str) : Option Str → Str
  | none => []
  | some m => ind ++ [91] ++ kwDeprecated ++ [40] ++ (34 :: (m ++ [34])) ++ [41, 93, 10]

/-- `// doc` lines, indented -/
def cmtText (ind : Str) : List Str → Str
  | [] => []
  | c :: cs => ind ++ [47, 47] ++ c ++ [10] ++ cmtText ind cs

/-- line break, or ` // comment` and line break -/
def trailText : Option Str → Str
  | none => [10]
  | some c => [32, 47, 47] ++ c ++ [10]

/-- the field lines and the closing line of a struct body -/
def fieldsText (ind : Str) : List CField → Str
  | [] => ind.dropLast ++ [125, 10]
  | g :: fs =>
    cmtText ind g.doc ++ depText ind g.dep ++ ind ++ typeText g.ty ++ [32] ++ g.name ++ [59] ++ trailText g.trail ++
      fieldsText ind fs

/-- `[opcode(…)]` + line break -/
def opText : Option OpLit → Str
  | none => []
  | some o => [91] ++ kwOpcode ++ [40] ++ (opLitTok o).concrete ++ [41, 93, 10]

/-- the field lines `idx -> Type name;` and the closing line of a message body -/
def msgFieldsText (ind : Str) : List CMsgField → Str
  | [] => ind.dropLast ++ [125, 10]
  | g :: gs =>
    cmtText ind g.doc ++ depText ind g.dep ++ ind ++ g.idx ++ [32, 45, 62, 32] ++ typeText g.ty ++ [32] ++ g.name ++ [59] ++
      trailText g.trail ++ msgFieldsText ind gs

def spText (prev : TK) : List Token → Str
  | [] => []
  | tk :: ts => (if prev != .openParen && tk.kind != .closeParen then [32] else []) ++ tk.concrete ++ spText tk.kind ts

/-- the member lines `Name = value;` and the closing line of an enum -/
def enumOptsText : List CEnumOpt → Str
  | [] => [125, 10]
  | o :: os =>
    cmtText [9] o.doc ++ depText [9] o.dep ++ [9] ++ o.name ++ spText .ident (tEq :: o.val.map ETok.tok) ++ [59, 10] ++
      enumOptsText os

def memberText : CUMember → Str
  | .struct doc dep idx name fields =>
    cmtText [9] doc ++ depText [9] dep ++ [9] ++ idx ++ [32, 45, 62, 32] ++ kwStruct ++ [32] ++ name ++ [32, 123, 10] ++
      fieldsText [9, 9] fields
  | .message doc dep idx name fields =>
    cmtText [9] doc ++ depText [9] dep ++ [9] ++ idx ++ [32, 45, 62, 32] ++ kwMessage ++ [32] ++ name ++ [32, 123, 10] ++
      msgFieldsText [9, 9] fields

def membersText : List CUMember → Str
  | [] => [125, 10]
  | m :: ms => memberText m ++ membersText ms

def flagsText : Bool → Str
  | false => []
  | true => [91] ++ kwFlags ++ [93, 10]

def baseText : Option Str → Str
  | none => []
  | some b => [32, 58, 32] ++ b

def defText : CDef → Str
  | .struct op ro name fields =>
    opText op ++ (if ro then kwReadonly ++ [32] else []) ++ kwStruct ++ [32] ++ name ++ [32, 123, 10] ++
      fieldsText [9] fields
  | .message op name fields =>
    opText op ++ kwMessage ++ [32] ++ name ++ [32, 123, 10] ++ msgFieldsText [9] fields
  | .enum fl name base opts =>
    flagsText fl ++ kwEnum ++ [32] ++ name ++ baseText base ++ [32, 123, 10] ++ enumOptsText opts
  | .union op name members => opText op ++ kwUnion ++ [32] ++ name ++ [32, 123, 10] ++ membersText members
  | .const name v =>
    kwConst ++ [32] ++ constTy v ++ [32] ++ name ++ [32, 61, 32] ++ (constValTok v).concrete ++ [59]
  | .import_ path => kwImport ++ [32] ++ (34 :: (path ++ [34])) ++ [10]

/-- the text of a file: an empty line before a definition where the formatter puts one -/
def fileText : Bool → CFile → Str
  | _, [] => []
  | nl, d :: ds =>
    (if nl && d.doc.isEmpty then [10] else []) ++ cmtText [] d.doc ++ defText d.d ++ fileText (nlAfter d.d) ds

/-! ### sizes (numbers of lexemes), used for the fuel accounting -/

abbrev toks (l : List Lexeme) : List Token := l.map (·.tok)

def tyLen : CType → Nat
  | .name _ k => 1 + 2 * k
  | .array t k => 3 + tyLen t + 2 * k
  | .map _ v k => 5 + tyLen v + 2 * k

/-- fuel `readFieldType` needs for a type -/
def tyFuel : CType → Nat
  | .name _ k => k + 2
  | .array t k => tyFuel t + k + 2
  | .map _ v k => tyFuel v + k + 3

def depLen : Option Str → Nat
  | none => 0
  | some _ => 7

def fieldLen (f : CField) : Nat := f.doc.length + depLen f.dep + tyLen f.ty + 3

def fieldsLen : List CField → Nat
  | [] => 2
  | f :: fs => fieldLen f + fieldsLen fs

def opLen : Option OpLit → Nat
  | none => 0
  | some _ => 7

def msgFieldLen (g : CMsgField) : Nat := g.doc.length + depLen g.dep + tyLen g.ty + 5

def msgFieldsLen : List CMsgField → Nat
  | [] => 2
  | g :: gs => msgFieldLen g + msgFieldsLen gs

def enumOptLen (o : CEnumOpt) : Nat := o.doc.length + depLen o.dep + 4 + o.val.length

def enumOptsLen : List CEnumOpt → Nat
  | [] => 2
  | o :: os => enumOptLen o + enumOptsLen os

def memberLen : CUMember → Nat
  | .struct doc dep _ _ fields => doc.length + depLen dep + 6 + fieldsLen fields
  | .message doc dep _ _ fields => doc.length + depLen dep + 6 + msgFieldsLen fields

def membersLen : List CUMember → Nat
  | [] => 2
  | m :: ms => memberLen m + membersLen ms

def flagsLen : Bool → Nat
  | false => 0
  | true => 4

def baseLen : Option Str → Nat
  | none => 0
  | some _ => 2

def defLen : CDef → Nat
  | .struct op ro _ fields => opLen op + (if ro then 1 else 0) + 4 + fieldsLen fields
  | .message op _ fields => opLen op + 4 + msgFieldsLen fields
  | .enum fl _ base opts => flagsLen fl + 4 + baseLen base + enumOptsLen opts
  | .union op _ members => opLen op + 4 + membersLen members
  | .const _ _ => 6
  | .import_ _ => 3

def topLen (d : CTop) : Nat := d.doc.length + defLen d.d

namespace Canon

theorem renderC_docLex (ind : List Byte) : ∀ (cs : List Str) (r : List Lexeme),
    renderC (docLex ind cs r) = cmtText ind cs ++ renderC r
  | [], r => by simp [docLex, cmtText]
  | c :: cs, r => by simp [docLex, cmtText, renderC, renderC_docLex ind cs r]

theorem renderC_trailLex (c : Option Str) (r : List Lexeme) : renderC (trailLex c r) = trailText c ++ renderC r := by
  cases c <;> simp [trailLex, trailText, renderC]

@[simp] theorem len_docLex (ind : List Byte) : ∀ (cs : List Str) (r : List Lexeme),
    (docLex ind cs r).length = cs.length + r.length
  | [], r => by simp [docLex]
  | c :: cs, r => by simp [docLex, len_docLex ind cs r]; omega

@[simp] theorem len_trailLex (c : Option Str) (r : List Lexeme) : (trailLex c r).length = 1 + r.length := by
  cases c <;> simp [trailLex] <;> omega

theorem renderC_sufLex : ∀ (k : Nat) (r : List Lexeme), renderC (sufLex k r) = sufText k ++ renderC r
  | 0, r => by simp [sufLex, sufText]
  | k + 1, r => by simp [sufLex, sufText, renderC, renderC_sufLex k r]

theorem renderC_typeLex : ∀ (ty : CType) (s : List Byte) (r : List Lexeme),
    renderC (typeLex ty s r) = s ++ typeText ty ++ renderC r
  | .name n k, s, r => by simp [typeLex, typeText, renderC, renderC_sufLex]
  | .array t k, s, r => by simp [typeLex, typeText, renderC, renderC_sufLex, renderC_typeLex t]
  | .map key v k, s, r => by simp [typeLex, typeText, renderC, renderC_sufLex, renderC_typeLex v]

theorem renderC_depLex (ind : List Byte) (d : Option Str) (r : List Lexeme) :
    renderC (depLex ind d r) = depText ind d ++ renderC r := by
  cases d <;> simp [depLex, depText, renderC]

theorem renderC_fieldsLex (ind : List Byte) : ∀ (fs : List CField) (r : List Lexeme),
    renderC (fieldsLex ind fs r) = fieldsText ind fs ++ renderC r
  | [], r => by simp [fieldsLex, fieldsText, renderC]
  | g :: fs, r => by
    simp [fieldsLex, fieldLex, fieldsText, renderC, renderC_docLex, renderC_trailLex, renderC_depLex, renderC_typeLex,
      renderC_fieldsLex ind fs r]

theorem renderC_opLex (o : Option OpLit) (r : List Lexeme) : renderC (opLex o r) = opText o ++ renderC r := by
  cases o <;> simp [opLex, opText, renderC]

theorem renderC_msgFieldsLex (ind : List Byte) : ∀ (gs : List CMsgField) (r : List Lexeme),
    renderC (msgFieldsLex ind gs r) = msgFieldsText ind gs ++ renderC r
  | [], r => by simp [msgFieldsLex, msgFieldsText, renderC]
  | g :: gs, r => by
    simp [msgFieldsLex, msgFieldLex, msgFieldsText, renderC, renderC_docLex, renderC_trailLex, renderC_depLex,
      renderC_typeLex, renderC_msgFieldsLex ind gs r]

theorem renderC_spLex : ∀ (ts : List Token) (prev : TK) (r : List Lexeme),
    renderC (spLex prev ts r) = spText prev ts ++ renderC r
  | [], prev, r => by simp [spLex, spText]
  | tk :: ts, prev, r => by simp [spLex, spText, renderC, renderC_spLex ts]

@[simp] theorem len_spLex : ∀ (ts : List Token) (prev : TK) (r : List Lexeme),
    (spLex prev ts r).length = ts.length + r.length
  | [], prev, r => by simp [spLex]
  | tk :: ts, prev, r => by simp [spLex, len_spLex ts]; omega

theorem renderC_enumOptsLex : ∀ (os : List CEnumOpt) (r : List Lexeme),
    renderC (enumOptsLex os r) = enumOptsText os ++ renderC r
  | [], r => by simp [enumOptsLex, enumOptsText, renderC]
  | o :: os, r => by
    simp [enumOptsLex, enumOptLex, enumOptsText, renderC, renderC_docLex, renderC_depLex, renderC_spLex,
      renderC_enumOptsLex os r]

theorem renderC_membersLex : ∀ (ms : List CUMember) (r : List Lexeme),
    renderC (membersLex ms r) = membersText ms ++ renderC r
  | [], r => by simp [membersLex, membersText, renderC]
  | m :: ms, r => by
    cases m <;>
      simp [membersLex, memberLex, membersText, memberText, structLex, messageLex, renderC, renderC_docLex, renderC_depLex,
        renderC_fieldsLex, renderC_msgFieldsLex, renderC_membersLex ms r]

theorem renderC_flagsLex (fl : Bool) (r : List Lexeme) : renderC (flagsLex fl r) = flagsText fl ++ renderC r := by
  cases fl <;> simp [flagsLex, flagsText, renderC]

theorem renderC_baseLex (b : Option Str) (r : List Lexeme) : renderC (baseLex b r) = baseText b ++ renderC r := by
  cases b <;> simp [baseLex, baseText, renderC]

theorem renderC_defLex (d : CDef) (r : List Lexeme) : renderC (defLex d r) = defText d ++ renderC r := by
  cases d with
  | struct op ro name fields =>
    cases ro <;> simp [defLex, defText, structLex, renderC, renderC_opLex, renderC_fieldsLex]
  | message op name fields => simp [defLex, defText, messageLex, renderC, renderC_opLex, renderC_msgFieldsLex]
  | enum fl name base opts => simp [defLex, defText, renderC, renderC_flagsLex, renderC_baseLex, renderC_enumOptsLex]
  | union op name members => simp [defLex, defText, renderC, renderC_opLex, renderC_membersLex]
  | const name v => simp [defLex, defText, renderC]
  | import_ path => simp [defLex, defText, renderC]

theorem renderC_fileLex : ∀ (ds : CFile) (nl : Bool), renderC (fileLex nl ds) = fileText nl ds
  | [], _ => rfl
  | d :: ds, nl => by
    cases h : (nl && d.doc.isEmpty) <;>
      simp [fileLex, fileText, renderC, renderC_docLex, renderC_defLex, renderC_fileLex ds, h]

/-- The canonical text of a schema, construct by construct. -/
theorem canonTextF_eq_fileText (f : CFile) : canonTextF f = fileText false f := renderC_fileLex f false

@[simp] theorem len_sufLex : ∀ (k : Nat) (r : List Lexeme), (sufLex k r).length = 2 * k + r.length
  | 0, r => by simp [sufLex]
  | k + 1, r => by simp [sufLex, len_sufLex k r]; omega

@[simp] theorem len_typeLex : ∀ (ty : CType) (s : List Byte) (r : List Lexeme),
    (typeLex ty s r).length = tyLen ty + r.length
  | .name n k, s, r => by simp [typeLex, tyLen]; omega
  | .array t k, s, r => by simp [typeLex, tyLen, len_typeLex t]; omega
  | .map key v k, s, r => by simp [typeLex, tyLen, len_typeLex v]; omega

theorem tyFuel_le : ∀ (ty : CType), tyFuel ty ≤ tyLen ty + 1
  | .name n k => by simp [tyFuel, tyLen]; omega
  | .array t k => by have := tyFuel_le t; simp [tyFuel, tyLen]; omega
  | .map key v k => by have := tyFuel_le v; simp [tyFuel, tyLen]; omega

@[simp] theorem len_depLex (ind : List Byte) (d : Option Str) (r : List Lexeme) :
    (depLex ind d r).length = depLen d + r.length := by
  cases d <;> simp [depLex, depLen]; omega

@[simp] theorem len_fieldLex (ind : List Byte) (f : CField) (r : List Lexeme) :
    (fieldLex ind f r).length = fieldLen f + r.length := by
  simp [fieldLex, fieldLen]; omega

@[simp] theorem len_fieldsLex (ind : List Byte) : ∀ (fs : List CField) (r : List Lexeme),
    (fieldsLex ind fs r).length = fieldsLen fs + r.length
  | [], r => by simp [fieldsLex, fieldsLen]; omega
  | f :: fs, r => by simp [fieldsLex, fieldsLen, len_fieldsLex ind fs r]; omega

@[simp] theorem len_opLex (o : Option OpLit) (r : List Lexeme) : (opLex o r).length = opLen o + r.length := by
  cases o <;> simp [opLex, opLen]; omega

@[simp] theorem len_structLex (s ind : List Byte) (name : Str) (fs : List CField) (r : List Lexeme) :
    (structLex s ind name fs r).length = 4 + fieldsLen fs + r.length := by
  simp [structLex]; omega

@[simp] theorem len_msgFieldsLex (ind : List Byte) : ∀ (gs : List CMsgField) (r : List Lexeme),
    (msgFieldsLex ind gs r).length = msgFieldsLen gs + r.length
  | [], r => by simp [msgFieldsLex, msgFieldsLen]; omega
  | g :: gs, r => by
    simp [msgFieldsLex, msgFieldLex, msgFieldsLen, msgFieldLen, len_msgFieldsLex ind gs r]; omega

@[simp] theorem len_enumOptsLex : ∀ (os : List CEnumOpt) (r : List Lexeme),
    (enumOptsLex os r).length = enumOptsLen os + r.length
  | [], r => by simp [enumOptsLex, enumOptsLen]; omega
  | o :: os, r => by simp [enumOptsLex, enumOptLex, enumOptsLen, enumOptLen, len_enumOptsLex os r]; omega

@[simp] theorem len_membersLex : ∀ (ms : List CUMember) (r : List Lexeme),
    (membersLex ms r).length = membersLen ms + r.length
  | [], r => by simp [membersLex, membersLen]; omega
  | m :: ms, r => by
    cases m <;> simp [membersLex, memberLex, membersLen, memberLen, structLex, messageLex, len_membersLex ms r] <;> omega

@[simp] theorem len_flagsLex (fl : Bool) (r : List Lexeme) : (flagsLex fl r).length = flagsLen fl + r.length := by
  cases fl <;> simp [flagsLex, flagsLen]; omega

@[simp] theorem len_baseLex (b : Option Str) (r : List Lexeme) : (baseLex b r).length = baseLen b + r.length := by
  cases b <;> simp [baseLex, baseLen]; omega

@[simp] theorem len_defLex (d : CDef) (r : List Lexeme) : (defLex d r).length = defLen d + r.length := by
  cases d with
  | struct op ro name fields => cases ro <;> simp [defLex, defLen] <;> omega
  | message op name fields => simp [defLex, defLen, messageLex]; omega
  | enum fl name base opts => simp [defLex, defLen]; omega
  | union op name members => simp [defLex, defLen]; omega
  | const name v => simp [defLex, defLen]; omega
  | import_ path => simp [defLex, defLen]; omega

end Canon
end Bebop.Text
