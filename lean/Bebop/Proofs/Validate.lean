/-
  Helper lemmas about the File.Validate model (Bebop.Text.Validate): what a successful run of each of the
  four definition loops establishes, and the usage-closure argument for the infinite-struct check.
  The property theorems themselves are in Bebop.Props.C13.
-/
import Bebop.Text.Validate

namespace Bebop.Text

/-! ### dupIn -/

theorem dupIn_eq_false_iff {α} [BEq α] [LawfulBEq α] (l : List α) : dupIn l = false ↔ l.Nodup := by
  induction l with
  | nil => simp [dupIn]
  | cons a rest ih => simp [dupIn, List.nodup_cons, ih]

theorem nodup_append_singleton {α} {l : List α} {a : α} : (l ++ [a]).Nodup ↔ l.Nodup ∧ a ∉ l := by
  rw [List.nodup_append]
  constructor
  · rintro ⟨h1, _, h3⟩
    exact ⟨h1, fun hm => h3 a hm a (by simp) rfl⟩
  · rintro ⟨h1, h2⟩
    refine ⟨h1, by simp, ?_⟩
    intro x hx b hb
    simp at hb
    subst hb
    intro e
    subst e
    exact h2 hx

theorem dupIn_append_singleton {α} [BEq α] [LawfulBEq α] (l : List α) (a : α) :
    dupIn (l ++ [a]) = false ↔ dupIn l = false ∧ l.contains a = false := by
  rw [dupIn_eq_false_iff, dupIn_eq_false_iff, nodup_append_singleton]
  simp

/-! ### The four definition loops -/

theorem enums_inr (es : List Enum) (custom c : List Str) (h : validate.enums es custom = .inr c) :
    c = custom ++ es.map (·.name) ∧
    (∀ e ∈ es, isPrimitiveName e.name = false ∧ dupIn (e.options.map (·.name)) = false ∧
      (if e.unsigned then dupIn (e.options.map (·.uvalue)) else dupIn (e.options.map (·.value))) = false) ∧
    (custom.Nodup → c.Nodup) := by
  induction es generalizing custom with
  | nil =>
    simp only [validate.enums, Sum.inr.injEq] at h
    subst h
    simp
  | cons e rest ih =>
    simp only [validate.enums] at h
    split at h
    · cases h
    split at h
    · cases h
    split at h
    · cases h
    rename_i h1 h2 h3
    by_cases h4 : (if e.unsigned then dupIn (e.options.map (·.uvalue)) else dupIn (e.options.map (·.value))) = true
    · rw [if_pos h4] at h
      cases h
    rw [if_neg h4] at h
    obtain ⟨hc, hall, hnd⟩ := ih _ h
    refine ⟨by simp [hc], ?_, ?_⟩
    · intro e' he'
      rcases List.mem_cons.1 he' with rfl | hm
      · exact ⟨by simpa using h1, by simpa using h3, by simpa using h4⟩
      · exact hall e' hm
    · intro hcn
      apply hnd
      rw [nodup_append_singleton]
      exact ⟨hcn, by simpa using h2⟩

theorem ops_step_nodup (ops : List Nat) (oc : Nat) (h : ¬ ((oc != 0 && ops.contains oc) = true)) (hn : ops.Nodup) :
    (if (oc != 0) = true then ops ++ [oc] else ops).Nodup := by
  split
  · rename_i h0
    rw [nodup_append_singleton]
    refine ⟨hn, ?_⟩
    intro hm
    apply h
    simp [h0, hm]
  · exact hn

theorem ops_step_eq (ops : List Nat) (oc : Nat) (rest : List Nat) :
    (if (oc != 0) = true then ops ++ [oc] else ops) ++ rest.filter (· != 0) = ops ++ (oc :: rest).filter (· != 0) := by
  by_cases h0 : (oc != 0) = true
  · simp [h0]
  · simp [h0]

theorem structs_inr (ss : List Struct) (custom c : List Str) (ops o : List Nat)
    (h : validate.structs ss custom ops = .inr (c, o)) :
    c = custom ++ ss.map (·.name) ∧ o = ops ++ (ss.map (·.opCode)).filter (· != 0) ∧
    (∀ s ∈ ss, isPrimitiveName s.name = false ∧ dupIn (s.fields.map (·.name)) = false) ∧
    (custom.Nodup → c.Nodup) ∧ (ops.Nodup → o.Nodup) := by
  induction ss generalizing custom ops with
  | nil =>
    simp only [validate.structs, Sum.inr.injEq, Prod.mk.injEq] at h
    obtain ⟨rfl, rfl⟩ := h
    simp
  | cons s rest ih =>
    simp only [validate.structs] at h
    split at h
    · cases h
    split at h
    · cases h
    split at h
    · cases h
    split at h
    · cases h
    rename_i h1 h2 h3 h4
    obtain ⟨hc, ho, hall, hnd, hno⟩ := ih _ _ h
    refine ⟨by simp [hc], ?_, ?_, ?_, ?_⟩
    · rw [ho, List.map_cons, ops_step_eq]
    · intro s' hs'
      rcases List.mem_cons.1 hs' with rfl | hm
      · exact ⟨by simpa using h1, by simpa using h3⟩
      · exact hall s' hm
    · intro hcn
      apply hnd
      rw [nodup_append_singleton]
      exact ⟨hcn, by simpa using h2⟩
    · intro hon
      exact hno (ops_step_nodup ops s.opCode h4 hon)

theorem messages_inr (ms : List Message) (custom c : List Str) (ops o : List Nat)
    (h : validate.messages ms custom ops = .inr (c, o)) :
    c = custom ++ ms.map (·.name) ∧ o = ops ++ (ms.map (·.opCode)).filter (· != 0) ∧
    (∀ m ∈ ms, isPrimitiveName m.name = false ∧ dupIn (m.fields.map (·.2.name)) = false) ∧
    (custom.Nodup → c.Nodup) ∧ (ops.Nodup → o.Nodup) := by
  induction ms generalizing custom ops with
  | nil =>
    simp only [validate.messages, Sum.inr.injEq, Prod.mk.injEq] at h
    obtain ⟨rfl, rfl⟩ := h
    simp
  | cons s rest ih =>
    simp only [validate.messages] at h
    split at h
    · cases h
    split at h
    · cases h
    split at h
    · cases h
    split at h
    · cases h
    rename_i h1 h2 h3 h4
    obtain ⟨hc, ho, hall, hnd, hno⟩ := ih _ _ h
    refine ⟨by simp [hc], ?_, ?_, ?_, ?_⟩
    · rw [ho, List.map_cons, ops_step_eq]
    · intro s' hs'
      rcases List.mem_cons.1 hs' with rfl | hm
      · exact ⟨by simpa using h1, by simpa using h3⟩
      · exact hall s' hm
    · intro hcn
      apply hnd
      rw [nodup_append_singleton]
      exact ⟨hcn, by simpa using h2⟩
    · intro hon
      exact hno (ops_step_nodup ops s.opCode h4 hon)

theorem unions_inr (us : List Union) (custom c : List Str) (ops o : List Nat)
    (h : validate.unions us custom ops = .inr (c, o)) :
    c = custom ++ us.map (·.name) ∧ o = ops ++ (us.map (·.opCode)).filter (· != 0) ∧
    (∀ u ∈ us, isPrimitiveName u.name = false ∧ dupIn (u.fields.map (fun p => unionFieldName p.2)) = false) ∧
    (custom.Nodup → c.Nodup) ∧ (ops.Nodup → o.Nodup) := by
  induction us generalizing custom ops with
  | nil =>
    simp only [validate.unions, Sum.inr.injEq, Prod.mk.injEq] at h
    obtain ⟨rfl, rfl⟩ := h
    simp
  | cons s rest ih =>
    simp only [validate.unions] at h
    split at h
    · cases h
    split at h
    · cases h
    split at h
    · cases h
    split at h
    · cases h
    rename_i h1 h2 h3 h4
    obtain ⟨hc, ho, hall, hnd, hno⟩ := ih _ _ h
    refine ⟨by simp [hc], ?_, ?_, ?_, ?_⟩
    · rw [ho, List.map_cons, ops_step_eq]
    · intro s' hs'
      rcases List.mem_cons.1 hs' with rfl | hm
      · exact ⟨by simpa using h1, by simpa using h3⟩
      · exact hall s' hm
    · intro hcn
      apply hnd
      rw [nodup_append_singleton]
      exact ⟨hcn, by simpa using h2⟩
    · intro hon
      exact hno (ops_step_nodup ops s.opCode h4 hon)

/-! ### The loops only ever fail with `.err` -/

theorem enums_ne_ok (es : List Enum) (custom : List Str) : validate.enums es custom ≠ .inl .ok := by
  induction es generalizing custom with
  | nil => simp [validate.enums]
  | cons e rest ih =>
    simp only [validate.enums]
    split
    · simp
    split
    · simp
    split
    · simp
    by_cases h4 : (if e.unsigned then dupIn (e.options.map (·.uvalue)) else dupIn (e.options.map (·.value))) = true
    · rw [if_pos h4]; simp
    · rw [if_neg h4]; exact ih _

theorem structs_ne_ok (ss : List Struct) (custom : List Str) (ops : List Nat) :
    validate.structs ss custom ops ≠ .inl .ok := by
  induction ss generalizing custom ops with
  | nil => simp [validate.structs]
  | cons e rest ih =>
    simp only [validate.structs]
    split
    · simp
    split
    · simp
    split
    · simp
    split
    · simp
    exact ih _ _

theorem messages_ne_ok (ms : List Message) (custom : List Str) (ops : List Nat) :
    validate.messages ms custom ops ≠ .inl .ok := by
  induction ms generalizing custom ops with
  | nil => simp [validate.messages]
  | cons e rest ih =>
    simp only [validate.messages]
    split
    · simp
    split
    · simp
    split
    · simp
    split
    · simp
    exact ih _ _

theorem unions_ne_ok (us : List Union) (custom : List Str) (ops : List Nat) :
    validate.unions us custom ops ≠ .inl .ok := by
  induction us generalizing custom ops with
  | nil => simp [validate.unions]
  | cons e rest ih =>
    simp only [validate.unions]
    split
    · simp
    split
    · simp
    split
    · simp
    split
    · simp
    exact ih _ _

/-! ### What `validate f = .ok` went through -/

/-- `usage0` of `validate`. -/
def usage0Of (f : File) : List (Str × List Str) := f.structs.map (fun s => (s.name, usedTypesStruct s))
/-- `bound` of `validate`. -/
def boundOf (f : File) : Nat :=
  (usage0Of f).length * ((usage0Of f).length + ((usage0Of f).foldl (fun n p => n + p.2.length) 0)) + 1
/-- `usage` of `validate`: the computed closure. -/
def closureOf (f : File) : List (Str × List Str) := usageClosure (boundOf f) (usage0Of f)

theorem validate_ok_inv (f : File) (h : validate f = .ok) :
    dupIn (f.consts.map (·.name)) = false ∧
    ∃ c1 c2 o2 c3 o3 c4 o4,
      validate.enums f.enums [] = .inr c1 ∧
      validate.structs f.structs c1 [] = .inr (c2, o2) ∧
      validate.messages f.messages c2 o2 = .inr (c3, o3) ∧
      validate.unions f.unions c3 o3 = .inr (c4, o4) ∧
      f.structs.all (fun s => s.fields.all (fun fd => typeDefined (c4 ++ Facts.primitiveTypeNames.map strOf) fd.ft)) = true ∧
      f.messages.all (fun m => m.fields.all (fun p => typeDefined (c4 ++ Facts.primitiveTypeNames.map strOf) p.2.ft)) = true ∧
      (closureOf f).any (fun p => p.2.contains p.1) = false := by
  unfold validate at h
  split at h
  · cases h
  rename_i hc
  refine ⟨by simpa using hc, ?_⟩
  split at h
  · rename_i heq; subst h; exact absurd heq (enums_ne_ok _ _)
  rename_i c1 he
  split at h
  · rename_i heq; subst h; exact absurd heq (structs_ne_ok _ _ _)
  rename_i c2 o2 hs
  split at h
  · rename_i heq; subst h; exact absurd heq (messages_ne_ok _ _ _)
  rename_i c3 o3 hm
  split at h
  · rename_i heq; subst h; exact absurd heq (unions_ne_ok _ _ _)
  rename_i c4 o4 hu
  refine ⟨c1, c2, o2, c3, o3, c4, o4, he, hs, hm, hu, ?_⟩
  dsimp only at h
  split at h
  · cases h
  rename_i h1
  split at h
  · cases h
  rename_i h2
  split at h
  · cases h
  rename_i h3
  refine ⟨by simpa using h1, by simpa using h2, ?_⟩
  have h3' : ¬ (closureOf f).any (fun p => p.2.contains p.1) = true := h3
  simpa using h3'

/-- Everything `validate f = .ok` establishes, stated on the file itself. -/
theorem validate_ok_summary (f : File) (h : validate f = .ok) :
    dupIn (f.consts.map (·.name)) = false ∧
    (defNames f).Nodup ∧
    (∀ n ∈ defNames f, isPrimitiveName n = false) ∧
    (∀ e ∈ f.enums, dupIn (e.options.map (·.name)) = false ∧
      (if e.unsigned then dupIn (e.options.map (·.uvalue)) else dupIn (e.options.map (·.value))) = false) ∧
    (∀ s ∈ f.structs, dupIn (s.fields.map (·.name)) = false) ∧
    (∀ m ∈ f.messages, dupIn (m.fields.map (·.2.name)) = false) ∧
    ((f.structs.map (·.opCode) ++ f.messages.map (·.opCode) ++ f.unions.map (·.opCode)).filter (· != 0)).Nodup ∧
    f.structs.all (fun s => s.fields.all (fun fd => typeDefined (defNames f ++ Facts.primitiveTypeNames.map strOf) fd.ft)) = true ∧
    f.messages.all (fun m => m.fields.all (fun p => typeDefined (defNames f ++ Facts.primitiveTypeNames.map strOf) p.2.ft)) = true ∧
    (closureOf f).any (fun p => p.2.contains p.1) = false := by
  obtain ⟨hc, c1, c2, o2, c3, o3, c4, o4, he, hs, hm, hu, ht1, ht2, hcl⟩ := validate_ok_inv f h
  obtain ⟨e1, e2, e3⟩ := enums_inr _ _ _ he
  obtain ⟨s1, s2, s3, s4, s5⟩ := structs_inr _ _ _ _ _ hs
  obtain ⟨m1, m2, m3, m4, m5⟩ := messages_inr _ _ _ _ _ hm
  obtain ⟨u1, u2, u3, u4, u5⟩ := unions_inr _ _ _ _ _ hu
  have hdef : c4 = defNames f := by
    rw [u1, m1, s1, e1]; simp [defNames]
  have hops : o4 = (f.structs.map (·.opCode) ++ f.messages.map (·.opCode) ++ f.unions.map (·.opCode)).filter (· != 0) := by
    rw [u2, m2, s2]; simp [List.filter_append]
  refine ⟨hc, ?_, ?_, ?_, ?_, ?_, ?_, ?_, ?_, hcl⟩
  · rw [← hdef]; exact u4 (m4 (s4 (e3 List.nodup_nil)))
  · intro n hn
    simp only [defNames, List.mem_append, List.mem_map] at hn
    rcases hn with ((⟨x, hx, rfl⟩ | ⟨x, hx, rfl⟩) | ⟨x, hx, rfl⟩) | ⟨x, hx, rfl⟩
    · exact (e2 x hx).1
    · exact (s3 x hx).1
    · exact (m3 x hx).1
    · exact (u3 x hx).1
  · intro e hx; exact (e2 e hx).2
  · intro s hx; exact (s3 s hx).2
  · intro m hx; exact (m3 m hx).2
  · rw [← hops]; exact u5 (m5 (s5 List.nodup_nil))
  · rw [← hdef]; exact ht1
  · rw [← hdef]; exact ht2

/-! ### The infinite-struct check: a closed usage table has no self-containing struct -/

/-- `u` is closed under one more sweep, as sets. -/
def StableSets (u : List (Str × List Str)) : Prop :=
  ∀ p ∈ u, ∀ q ∈ u, p.1 ≠ q.1 → q.1 ∈ p.2 → ∀ x ∈ q.2, x ∈ p.2

/-- every row of `u0` has a row of `u` with the same key that contains it. -/
def ExtendsSets (u0 u : List (Str × List Str)) : Prop :=
  ∀ p ∈ u0, ∃ q ∈ u, q.1 = p.1 ∧ ∀ x ∈ p.2, x ∈ q.2

theorem directlyContains_usage0 (f : File) (a b : Str) (h : directlyContains f a b = true) :
    ∃ p ∈ usage0Of f, p.1 = a ∧ b ∈ p.2 := by
  simp only [directlyContains, List.any_eq_true, Bool.and_eq_true, beq_iff_eq] at h
  obtain ⟨t, ht, hname, fd, hfd, hft⟩ := h
  refine ⟨(t.name, usedTypesStruct t), ?_, hname, ?_⟩
  · simp only [usage0Of, List.mem_map]
    exact ⟨t, ht, rfl⟩
  · simp only [usedTypesStruct, List.mem_flatMap]
    refine ⟨fd, hfd, ?_⟩
    split at hft
    · rename_i n hn
      rw [hn]
      simp only [beq_iff_eq] at hft
      simp [usedTypesFT, hft]
    · cases hft

theorem directlyContains_closure (f : File) (u : List (Str × List Str)) (he : ExtendsSets (usage0Of f) u)
    (a b : Str) (h : directlyContains f a b = true) : ∃ q ∈ u, q.1 = a ∧ b ∈ q.2 := by
  obtain ⟨p, hp, hpa, hpb⟩ := directlyContains_usage0 f a b h
  obtain ⟨q, hq, hqk, hsub⟩ := he p hp
  exact ⟨q, hq, hqk.trans hpa, hsub b hpb⟩

theorem reachesSelf_false_of_mem (f : File) (u : List (Str × List Str))
    (hst : StableSets u) (he : ExtendsSets (usage0Of f) u) (hno : ∀ p ∈ u, p.1 ∉ p.2)
    (p : Str × List Str) (hp : p ∈ u) :
    ∀ (n : Nat) (cur : Str), cur ∈ p.2 → reachesSelf f p.1 n cur = false := by
  intro n
  induction n with
  | zero => intro cur _; rfl
  | succ n ih =>
    intro cur hcur
    simp only [reachesSelf]
    rw [Bool.eq_false_iff]
    intro hany
    simp only [List.any_eq_true, Bool.and_eq_true, Bool.or_eq_true, beq_iff_eq] at hany
    obtain ⟨s, _, hdc, hrest⟩ := hany
    obtain ⟨q, hq, hqk, hsq⟩ := directlyContains_closure f u he cur s.name hdc
    have hne : p.1 ≠ q.1 := by
      intro e
      apply hno p hp
      rw [e, hqk]; exact hcur
    have hin : s.name ∈ p.2 := hst p hp q hq hne (by rw [hqk]; exact hcur) _ hsq
    rcases hrest with hs | hr
    · exact hno p hp (hs ▸ hin)
    · rw [ih s.name hin] at hr
      cases hr

theorem reachesSelf_false (f : File) (u : List (Str × List Str))
    (hst : StableSets u) (he : ExtendsSets (usage0Of f) u) (hno : ∀ p ∈ u, p.1 ∉ p.2)
    (a : Str) (n : Nat) : reachesSelf f a n a = false := by
  cases n with
  | zero => rfl
  | succ n =>
    simp only [reachesSelf]
    rw [Bool.eq_false_iff]
    intro hany
    simp only [List.any_eq_true, Bool.and_eq_true, Bool.or_eq_true, beq_iff_eq] at hany
    obtain ⟨s, _, hdc, hrest⟩ := hany
    obtain ⟨q, hq, hqk, hsq⟩ := directlyContains_closure f u he a s.name hdc
    rcases hrest with hs | hr
    · apply hno q hq
      rw [hqk, ← hs]; exact hsq
    · have := reachesSelf_false_of_mem f u hst he hno q hq n s.name hsq
      rw [hqk] at this
      rw [this] at hr
      cases hr

/-! ### The decidable stability certificate -/

/-- Boolean form of `StableSets`. -/
def stableB (u : List (Str × List Str)) : Bool :=
  u.all (fun p => u.all (fun q => !(p.1 != q.1 && p.2.contains q.1) || q.2.all (fun x => p.2.contains x)))

/-- `u` has the keys of `u0` in the same order, and row by row contains `u0`. -/
def extendsB (u0 u : List (Str × List Str)) : Bool :=
  (u.map (·.1) == u0.map (·.1)) && (u0.zip u).all (fun pq => pq.1.2.all (fun x => pq.2.2.contains x))

/-- The closure that `validate f` computes is closed under one more sweep (as sets) and extends the direct
    usage table. Decidable, and checked by evaluation on every file the engine runs. -/
def closureStable (f : File) : Bool :=
  let usage0 := f.structs.map (fun s => (s.name, usedTypesStruct s))
  let bound := usage0.length * (usage0.length + (usage0.foldl (fun n p => n + p.2.length) 0)) + 1
  let u := usageClosure bound usage0
  stableB u && extendsB usage0 u

theorem closureStable_eq (f : File) :
    closureStable f = (stableB (closureOf f) && extendsB (usage0Of f) (closureOf f)) := rfl

theorem stableB_sound (u : List (Str × List Str)) (h : stableB u = true) : StableSets u := by
  intro p hp q hq hne hin x hx
  simp only [stableB, List.all_eq_true] at h
  have h1 := h p hp q hq
  simp only [Bool.or_eq_true, Bool.not_eq_true', Bool.and_eq_false_iff, bne_eq_false_iff_eq,
    List.all_eq_true, List.contains_eq_mem, decide_eq_true_eq, decide_eq_false_iff_not] at h1
  rcases h1 with (h1 | h1) | h1
  · exact absurd h1 hne
  · exact absurd hin h1
  · exact h1 x hx

theorem extendsB_sound (u0 u : List (Str × List Str)) (h : extendsB u0 u = true) : ExtendsSets u0 u := by
  induction u0 generalizing u with
  | nil => intro p hp; cases hp
  | cons p0 r0 ih =>
    cases u with
    | nil => simp [extendsB] at h
    | cons q r =>
      simp only [extendsB, List.map_cons, beq_iff_eq, List.cons.injEq, List.zip_cons_cons, List.all_cons,
        Bool.and_eq_true, List.all_eq_true, List.contains_eq_mem, decide_eq_true_eq] at h
      obtain ⟨⟨hk, hks⟩, hhd, htl⟩ := h
      have hr : extendsB r0 r = true := by
        simp only [extendsB, Bool.and_eq_true, beq_iff_eq, List.all_eq_true, List.contains_eq_mem,
          decide_eq_true_eq]
        exact ⟨hks, htl⟩
      intro p hp
      rcases List.mem_cons.1 hp with rfl | hm
      · exact ⟨q, by simp, hk, hhd⟩
      · obtain ⟨q', hq', h1, h2⟩ := ih r hr p hm
        exact ⟨q', List.mem_cons_of_mem _ hq', h1, h2⟩


/-! ### The fuel of the usage fixpoint always suffices

`usageSweep` only ever adds elements to a row, every element it adds is an element of some row of the initial
table, and the loop stops as soon as a sweep adds nothing; so at most `rows × (all elements)` sweeps can add
something, which is below `bound`. -/

def sweepStep (a : Str) (acc : List Str) (q : Str × List Str) : List Str :=
  if a != q.1 && acc.contains q.1 then acc ++ q.2.filter (fun x => !acc.contains x) else acc

def sweepRow (a : Str) (usage : List (Str × List Str)) (ua : List Str) : List Str :=
  usage.foldl (sweepStep a) ua

theorem usageSweep_eq (u : List (Str × List Str)) :
    usageSweep u = u.map (fun p => (p.1, sweepRow p.1 u p.2)) := rfl

def sumBy {α} (g : α → Nat) : List α → Nat
  | [] => 0
  | a :: l => g a + sumBy g l

theorem foldl_add_eq {α} (g : α → Nat) (l : List α) (k : Nat) :
    l.foldl (fun n p => n + g p) k = k + sumBy g l := by
  induction l generalizing k with
  | nil => simp [sumBy]
  | cons a l ih => simp only [List.foldl_cons, ih, sumBy]; omega

def card (l : List Str) : Nat := l.eraseDups.length

theorem usageSize_eq (u : List (Str × List Str)) : usageSize u = sumBy (fun p => card p.2) u := by
  simp only [usageSize, foldl_add_eq, card]; omega

theorem nodup_eraseDups_aux : ∀ (n : Nat) (l : List Str), l.length ≤ n → l.eraseDups.Nodup := by
  intro n
  induction n with
  | zero =>
    intro l hl
    have : l = [] := List.length_eq_zero_iff.1 (by omega)
    subst this; simp
  | succ n ih =>
    intro l hl
    cases l with
    | nil => simp
    | cons a as =>
      rw [List.eraseDups_cons, List.nodup_cons]
      constructor
      · intro hm
        rw [List.mem_eraseDups, List.mem_filter] at hm
        simp at hm
      · apply ih
        have := List.length_filter_le (fun b => !b == a) as
        simp only [List.length_cons] at hl
        omega

theorem nodup_eraseDups (l : List Str) : l.eraseDups.Nodup := nodup_eraseDups_aux _ l (Nat.le_refl _)
theorem card_le_of_subset (l l' : List Str) (h : ∀ x ∈ l, x ∈ l') : card l ≤ card l' := by
  apply (nodup_eraseDups l).length_le_of_subset
  intro x hx
  rw [List.mem_eraseDups] at hx ⊢
  exact h x hx

theorem card_le_length_of_subset (l U : List Str) (h : ∀ x ∈ l, x ∈ U) : card l ≤ U.length := by
  apply (nodup_eraseDups l).length_le_of_subset
  intro x hx
  rw [List.mem_eraseDups] at hx
  exact h x hx

theorem subset_of_card_le (l l' : List Str) (h : ∀ x ∈ l, x ∈ l') (hc : card l' ≤ card l) : ∀ x ∈ l', x ∈ l := by
  intro x hx
  apply Classical.byContradiction
  intro hnx
  have hnd : (x :: l.eraseDups).Nodup := by
    rw [List.nodup_cons]
    exact ⟨by rw [List.mem_eraseDups]; exact hnx, nodup_eraseDups l⟩
  have := hnd.length_le_of_subset (l₂ := l'.eraseDups) (by
    intro y hy
    rw [List.mem_eraseDups]
    rcases List.mem_cons.1 hy with rfl | hy
    · exact hx
    · exact h y (List.mem_eraseDups.1 hy))
  simp only [List.length_cons, card] at this hc
  omega

/-! sweepStep / sweepRow -/

theorem sweepStep_mono (a : Str) (acc : List Str) (q : Str × List Str) : ∀ x ∈ acc, x ∈ sweepStep a acc q := by
  intro x hx
  unfold sweepStep
  split
  · exact List.mem_append_left _ hx
  · exact hx

theorem sweepStep_in (U : List Str) (a : Str) (acc : List Str) (q : Str × List Str)
    (h1 : ∀ x ∈ acc, x ∈ U) (h2 : ∀ x ∈ q.2, x ∈ U) : ∀ x ∈ sweepStep a acc q, x ∈ U := by
  intro x hx
  unfold sweepStep at hx
  split at hx
  · rcases List.mem_append.1 hx with h | h
    · exact h1 x h
    · exact h2 x (List.mem_filter.1 h).1
  · exact h1 x hx

theorem sweepRow_in (U : List Str) (a : Str) (L : List (Str × List Str)) (acc : List Str)
    (h1 : ∀ x ∈ acc, x ∈ U) (h2 : ∀ q ∈ L, ∀ x ∈ q.2, x ∈ U) : ∀ x ∈ sweepRow a L acc, x ∈ U := by
  induction L generalizing acc with
  | nil => simpa [sweepRow] using h1
  | cons q0 L ih =>
    simp only [sweepRow, List.foldl_cons]
    apply ih
    · exact sweepStep_in U a acc q0 h1 (h2 q0 (by simp))
    · intro q hq; exact h2 q (List.mem_cons_of_mem _ hq)

theorem sweepRow_closed (a : Str) (L : List (Str × List Str)) (acc : List Str) :
    (∀ x ∈ acc, x ∈ sweepRow a L acc) ∧
    (∀ q ∈ L, a ≠ q.1 → q.1 ∈ acc → ∀ x ∈ q.2, x ∈ sweepRow a L acc) := by
  induction L generalizing acc with
  | nil => simp [sweepRow]
  | cons q0 L ih =>
    simp only [sweepRow, List.foldl_cons]
    obtain ⟨ih1, ih2⟩ := ih (sweepStep a acc q0)
    simp only [sweepRow] at ih1 ih2
    refine ⟨fun x hx => ih1 x (sweepStep_mono a acc q0 x hx), ?_⟩
    intro q hq hne hin x hx
    rcases List.mem_cons.1 hq with rfl | hq
    · apply ih1
      unfold sweepStep
      have hc : (a != q.1 && acc.contains q.1) = true := by simp [hne, hin]
      rw [if_pos hc]
      by_cases hxa : x ∈ acc
      · exact List.mem_append_left _ hxa
      · apply List.mem_append_right
        rw [List.mem_filter]
        exact ⟨hx, by simpa using hxa⟩
    · exact ih2 q hq hne (sweepStep_mono a acc q0 _ hin) x hx

theorem sumBy_pointwise {α} (g h : α → Nat) (l : List α) (hle : ∀ p ∈ l, g p ≤ h p) :
    sumBy g l ≤ sumBy h l ∧ (sumBy h l ≤ sumBy g l → ∀ p ∈ l, h p ≤ g p) := by
  induction l with
  | nil => simp [sumBy]
  | cons a l ih =>
    obtain ⟨i1, i2⟩ := ih (fun p hp => hle p (List.mem_cons_of_mem _ hp))
    have ha := hle a (by simp)
    simp only [sumBy]
    refine ⟨by omega, ?_⟩
    intro hs p hp
    rcases List.mem_cons.1 hp with rfl | hp
    · omega
    · exact i2 (by omega) p hp

theorem sumBy_le_mul {α} (g : α → Nat) (K : Nat) (l : List α) (hle : ∀ p ∈ l, g p ≤ K) :
    sumBy g l ≤ l.length * K := by
  induction l with
  | nil => simp [sumBy]
  | cons a l ih =>
    have := ih (fun p hp => hle p (List.mem_cons_of_mem _ hp))
    have ha := hle a (by simp)
    simp only [sumBy, List.length_cons, Nat.succ_mul]
    omega

theorem sumBy_map {α β} (g : β → Nat) (m : α → β) (l : List α) : sumBy g (l.map m) = sumBy (fun a => g (m a)) l := by
  induction l with
  | nil => rfl
  | cons a l ih => simp [sumBy, ih]

theorem usageSize_sweep (u : List (Str × List Str)) :
    usageSize (usageSweep u) = sumBy (fun p => card (sweepRow p.1 u p.2)) u := by
  rw [usageSize_eq, usageSweep_eq, sumBy_map]

theorem usageSize_sweep_ge (u : List (Str × List Str)) : usageSize u ≤ usageSize (usageSweep u) := by
  rw [usageSize_sweep, usageSize_eq]
  exact (sumBy_pointwise _ _ u (fun p _ => card_le_of_subset _ _ (sweepRow_closed p.1 u p.2).1)).1

theorem stable_of_size_eq (u : List (Str × List Str)) (h : usageSize (usageSweep u) = usageSize u) :
    StableSets u := by
  rw [usageSize_sweep, usageSize_eq] at h
  have hp := (sumBy_pointwise (fun p => card p.2) (fun p => card (sweepRow p.1 u p.2)) u
    (fun p _ => card_le_of_subset _ _ (sweepRow_closed p.1 u p.2).1)).2 (by omega)
  intro p hpu q hq hne hin x hx
  have hback := subset_of_card_le p.2 (sweepRow p.1 u p.2) (sweepRow_closed p.1 u p.2).1 (hp p hpu)
  exact hback x ((sweepRow_closed p.1 u p.2).2 q hq hne hin x hx)

/-! extendsB algebra -/

theorem extendsB_cons (p q : Str × List Str) (r0 r : List (Str × List Str)) :
    extendsB (p :: r0) (q :: r) = true ↔ (q.1 = p.1 ∧ (∀ x ∈ p.2, x ∈ q.2)) ∧ extendsB r0 r = true := by
  simp only [extendsB, List.map_cons, beq_iff_eq, List.cons.injEq, List.zip_cons_cons, List.all_cons,
    Bool.and_eq_true, List.all_eq_true, List.contains_eq_mem, decide_eq_true_eq]
  constructor
  · rintro ⟨⟨a, b⟩, c, d⟩; exact ⟨⟨a, c⟩, b, d⟩
  · rintro ⟨⟨a, c⟩, b, d⟩; exact ⟨⟨a, b⟩, c, d⟩

theorem extendsB_nil_left (u : List (Str × List Str)) : extendsB [] u = true ↔ u = [] := by
  cases u <;> simp [extendsB]

theorem extendsB_nil_right (u : List (Str × List Str)) : extendsB u [] = true ↔ u = [] := by
  cases u <;> simp [extendsB]

theorem extendsB_map (G : Str × List Str → List Str) (l : List (Str × List Str))
    (h : ∀ p ∈ l, ∀ x ∈ p.2, x ∈ G p) : extendsB l (l.map (fun p => (p.1, G p))) = true := by
  induction l with
  | nil => simp [extendsB]
  | cons p l ih =>
    rw [List.map_cons, extendsB_cons]
    exact ⟨⟨rfl, h p (by simp)⟩, ih (fun q hq => h q (List.mem_cons_of_mem _ hq))⟩

theorem extendsB_refl (l : List (Str × List Str)) : extendsB l l = true := by
  induction l with
  | nil => simp [extendsB]
  | cons p l ih => rw [extendsB_cons]; exact ⟨⟨rfl, fun _ h => h⟩, ih⟩

theorem extendsB_trans (a b c : List (Str × List Str)) (h1 : extendsB a b = true) (h2 : extendsB b c = true) :
    extendsB a c = true := by
  induction a generalizing b c with
  | nil =>
    rw [extendsB_nil_left] at h1; subst h1
    exact h2
  | cons p a ih =>
    cases b with
    | nil => rw [extendsB_nil_right] at h1; cases h1
    | cons q b =>
      cases c with
      | nil => rw [extendsB_nil_right] at h2; cases h2
      | cons r c =>
        rw [extendsB_cons] at h1 h2 ⊢
        exact ⟨⟨h2.1.1.trans h1.1.1, fun x hx => h2.1.2 x (h1.1.2 x hx)⟩, ih b c h1.2 h2.2⟩

theorem extendsB_sweep (u : List (Str × List Str)) : extendsB u (usageSweep u) = true := by
  rw [usageSweep_eq]
  exact extendsB_map (fun p => sweepRow p.1 u p.2) u (fun p _ => (sweepRow_closed p.1 u p.2).1)

/-! the fuel suffices -/

def RowsIn (U : List Str) (u : List (Str × List Str)) : Prop := ∀ p ∈ u, ∀ x ∈ p.2, x ∈ U

theorem rowsIn_sweep (U : List Str) (u : List (Str × List Str)) (h : RowsIn U u) : RowsIn U (usageSweep u) := by
  intro p' hp'
  rw [usageSweep_eq, List.mem_map] at hp'
  obtain ⟨p, hp, rfl⟩ := hp'
  exact sweepRow_in U p.1 u p.2 (h p hp) h

theorem usageSize_le (U : List Str) (u : List (Str × List Str)) (h : RowsIn U u) :
    usageSize u ≤ u.length * U.length := by
  rw [usageSize_eq]
  exact sumBy_le_mul _ _ u (fun p hp => card_le_length_of_subset _ _ (h p hp))

theorem length_sweep (u : List (Str × List Str)) : (usageSweep u).length = u.length := by
  rw [usageSweep_eq, List.length_map]

theorem usageClosure_spec (U : List Str) (n : Nat) :
    ∀ (fuel : Nat) (u : List (Str × List Str)), u.length = n → RowsIn U u → n * U.length < usageSize u + fuel →
      usageSize (usageSweep (usageClosure fuel u)) = usageSize (usageClosure fuel u) ∧
      extendsB u (usageClosure fuel u) = true := by
  intro fuel
  induction fuel with
  | zero =>
    intro u hl hr hlt
    have := usageSize_le U u hr
    rw [hl] at this
    omega
  | succ fuel ih =>
    intro u hl hr hlt
    simp only [usageClosure]
    split
    · rename_i heq
      exact ⟨by simpa using heq, extendsB_refl u⟩
    · rename_i hne
      have hne' : usageSize (usageSweep u) ≠ usageSize u := by simpa using hne
      have hge := usageSize_sweep_ge u
      obtain ⟨i1, i2⟩ := ih (usageSweep u) (by rw [length_sweep, hl]) (rowsIn_sweep U u hr) (by omega)
      exact ⟨i1, extendsB_trans _ _ _ (extendsB_sweep u) i2⟩

theorem stableB_complete (u : List (Str × List Str)) (h : StableSets u) : stableB u = true := by
  simp only [stableB, List.all_eq_true]
  intro p hp q hq
  simp only [Bool.or_eq_true, Bool.not_eq_true', Bool.and_eq_false_iff, bne_eq_false_iff_eq,
    List.all_eq_true, List.contains_eq_mem, decide_eq_true_eq, decide_eq_false_iff_not]
  by_cases h1 : p.1 = q.1
  · exact Or.inl (Or.inl h1)
  by_cases h2 : q.1 ∈ p.2
  · exact Or.inr (h p hp q hq h1 h2)
  · exact Or.inl (Or.inr h2)

theorem length_flatMap_snd (u : List (Str × List Str)) :
    (u.flatMap (·.2)).length = sumBy (fun p => p.2.length) u := by
  induction u with
  | nil => rfl
  | cons p u ih => simp [List.flatMap_cons, sumBy, ih]

/-- The fuel `bound` of the fixpoint loop always suffices: the table `validate` computes is closed. -/
theorem closureStable_always (f : File) : closureStable f = true := by
  rw [closureStable_eq]
  have hU : (usage0Of f).foldl (fun n p => n + p.2.length) 0 = ((usage0Of f).flatMap (·.2)).length := by
    rw [foldl_add_eq, length_flatMap_snd]; omega
  have hspec := usageClosure_spec ((usage0Of f).flatMap (·.2)) (usage0Of f).length (boundOf f) (usage0Of f) rfl
    (by
      intro p hp x hx
      exact List.mem_flatMap.2 ⟨p, hp, hx⟩)
    (by
      simp only [boundOf, hU, Nat.mul_add]
      omega)
  rw [Bool.and_eq_true]
  exact ⟨stableB_complete _ (stable_of_size_eq _ hspec.1), hspec.2⟩

end Bebop.Text
