#!/bin/bash
# Build the framework from files on disk only (offline).
set -e
cd "$(dirname "$0")"
export GOFLAGS=-mod=mod GOPROXY=off GOSUMDB=off GOTOOLCHAIN=local
(cd lean && lake build Bebop bebop-model 2>&1 | tail -3)
if [ -f harness/go.mod ]; then (cd harness && go build ./... ); fi
echo setup-ok
