/-
  ReadFile terminates: with the fuel `readFile` supplies (`2 * |input| + 4`), no loop of the parser model runs
  out of fuel — `readFile_never_out_of_fuel`, for every input and both reader endings.

  Method.  `Ok m t Q` is the weakest-precondition reading of a parser action: run at reader state `t`, `m` does
  not answer `fuel`, and if it returns a value, `Q` holds of the value and the new state.  Every function of
  Parser.lean gets one specification in this form, with a postcondition about two numbers only: the remaining
  input never grows, and the tokenizer measure `mu` (TokenizerProgress: `2 * |remaining| + [keep]`) moves by a
  stated amount.  `Next` never raises `mu` and lowers it when it returns true; `UnNext` raises it by at most 1.
  Every loop iteration of the parser contains a `Next` whose `true` result is checked (otherwise the loop
  returns an error) and, between two such checks, at most one net `UnNext` (`optNewline`,
  `skipEndOfLineComments`, the `[]` loop of `readFieldType`, the un-read in front of a struct field type and of
  `opcode`) — so `mu` strictly decreases from iteration to iteration, and a loop started with fuel
  `> mu` (own counter) resp. `≥ 2 * |remaining| + 2` (nested loops, which are started with the full fuel)
  never reaches 0.  The `wp` tactic does the symbolic execution; all side conditions are linear arithmetic.

  Unlike format.go, parse.go has no place where a failed `Next` is followed by an `UnNext` inside a loop that
  does not check a later `Next`: `optNewline` can raise `mu` by one at the end of the input, but every loop
  that follows it begins with a checked `Next`.
-/
import Bebop.Text.Parser
import Bebop.Proofs.TokenizerProgress

namespace Bebop.Text
namespace PT   -- the helper names (…_ok) also exist in Proofs/Parser.lean and Proofs/Format.lean

/-- Weakest-precondition form of "running `m` at `t` does not run out of fuel, and if it returns a value
    then `Q` holds of the value and the new reader state". -/
def Ok {α} (m : P α) (t : TR) (Q : α → TR → Prop) : Prop :=
  match m t with
  | .ok a t' => Q a t'
  | .fuel => False
  | _ => True

theorem Ok_pure {α} (a : α) (t : TR) (Q : α → TR → Prop) : Ok (pure a : P α) t Q = Q a t := rfl
theorem Ok_fail {α} (t : TR) (Q : α → TR → Prop) : Ok (fail : P α) t Q := trivial
theorem Ok_declined {α} (t : TR) (Q : α → TR → Prop) : Ok (declined : P α) t Q := trivial

theorem Ok_bind {α β} (m : P α) (k : α → P β) (t : TR) (Q : β → TR → Prop) :
    Ok (m >>= k) t Q = Ok m t (fun a t1 => Ok (k a) t1 Q) := by
  show (match (match m t with | .ok a t' => k a t' | .err t' => .err t' | .fuel => .fuel | .decline t' => .decline t') with
    | .ok a t' => Q a t' | .fuel => False | _ => True) = _
  unfold Ok
  cases m t <;> rfl

theorem Ok_mono {α} {m : P α} {t : TR} {R Q : α → TR → Prop} (h : Ok m t R) (hq : ∀ a t', R a t' → Q a t') :
    Ok m t Q := by
  unfold Ok at h ⊢
  cases hr : m t with
  | ok a t' => rw [hr] at h; exact hq a t' h
  | err t' => trivial
  | fuel => rw [hr] at h; exact h
  | decline t' => trivial

theorem Ok_ite {α} {c : Prop} [Decidable c] {a b : P α} {t : TR} {Q : α → TR → Prop}
    (h1 : c → Ok a t Q) (h2 : ¬ c → Ok b t Q) : Ok (if c then a else b) t Q := by
  split
  · exact h1 ‹_›
  · exact h2 ‹_›

theorem Ok_pNext {t : TR} {Q : Bool → TR → Prop}
    (hf : ∀ t', t'.inp.length ≤ t.inp.length → mu t' ≤ mu t → Q false t')
    (ht : ∀ t', t'.inp.length ≤ t.inp.length → mu t' + 1 ≤ mu t → Q true t') : Ok pNext t Q := by
  show Q (next t).1 (next t).2
  have h1 := next_len_le t
  have h2 := next_measure t
  cases hr : (next t).1
  · exact hf _ h1 h2.1
  · have := h2.2 hr; exact ht _ h1 (by omega)

theorem Ok_pTok (t : TR) (Q : Token → TR → Prop) : Ok pTok t Q = Q t.nextTok t := rfl
theorem Ok_pHasErr (t : TR) (Q : Bool → TR → Prop) : Ok pHasErr t Q = Q (hasErr t) t := rfl

theorem Ok_pUnNext {t : TR} {Q : Unit → TR → Prop}
    (h : ∀ t', t'.inp.length ≤ t.inp.length → mu t' ≤ mu t + 1 → Q () t') : Ok pUnNext t Q := by
  show Q () { t with keep := true }
  refine h _ (Nat.le_refl _) ?_
  rw [mu_unNext]; unfold mu; omega

theorem Ok_setKeep {t : TR} {Q : Unit → TR → Prop}
    (h : ∀ t', t'.inp.length ≤ t.inp.length → mu t' ≤ mu t → Q () t') :
    Ok (fun t => PR.ok () { t with keep := false } : P Unit) t Q := by
  show Q () { t with keep := false }
  refine h _ (Nat.le_refl _) ?_
  have h1 : mu { t with keep := false } = 2 * t.inp.length := by simp [mu]
  rw [h1]; unfold mu; omega

theorem Ok_setKeep_bind {β} {k : Unit → P β} {t : TR} {Q : β → TR → Prop}
    (h : ∀ t', t'.inp.length ≤ t.inp.length → mu t' ≤ mu t → Ok (k ()) t' Q) :
    Ok ((fun t => PR.ok () { t with keep := false } : P Unit) >>= k) t Q := by
  show Ok (k ()) { t with keep := false } Q
  refine h _ (Nat.le_refl _) ?_
  have h1 : mu { t with keep := false } = 2 * t.inp.length := by simp [mu]
  rw [h1]; unfold mu; omega

/-- apply the spec `s` of a callee, discharge its precondition by arithmetic, continue with its post -/
macro "wp_call " s:term : tactic => `(tactic| (
  apply Ok_mono
  next => ((apply $s) <;> (first | trivial | omega))
  intro _ _ hpost
  try dsimp only at hpost ⊢
  try simp only [List.length_cons, List.length_nil] at hpost))

open Lean in
/-- Symbolic execution of a parser action in `Ok` form; `wp [s₁, …]` knows the specs `sᵢ` of the callees. -/
macro "wp" "[" ss:term,* "]" : tactic => do
  let calls ← ss.getElems.mapM fun s => `(tacticSeq| wp_call $s)
  let pre := #[
    ← `(tacticSeq| exact Ok_fail _ _),
    ← `(tacticSeq| exact Ok_declined _ _),
    ← `(tacticSeq| (refine Ok_setKeep_bind ?_; intro _ _ _; try dsimp only)),
    ← `(tacticSeq| rw [Ok_bind]),
    ← `(tacticSeq| (rw [Ok_pure]; try dsimp only)),
    ← `(tacticSeq| (rw [Ok_pTok]; try dsimp only)),
    ← `(tacticSeq| (rw [Ok_pHasErr]; try dsimp only)),
    ← `(tacticSeq| (refine Ok_pNext ?_ ?_ <;> (intro _ _ _; try dsimp only))),
    ← `(tacticSeq| (refine Ok_pUnNext ?_; intro _ _ _; try dsimp only)),
    ← `(tacticSeq| (refine Ok_setKeep ?_; intro _ _ _; try dsimp only))]
  let post := #[
    ← `(tacticSeq| (refine Ok_ite ?_ ?_ <;> intro _)),
    ← `(tacticSeq| simp only [Bool.not_true, Bool.not_false, Bool.false_eq_true, if_true, if_false]),
    ← `(tacticSeq| split),
    ← `(tacticSeq| omega),
    ← `(tacticSeq| exact ⟨by omega, by omega⟩),
    ← `(tacticSeq| trivial)]
  let alts := pre ++ calls ++ post
  `(tactic| repeat' (first $[| $alts]*))

/-! ## Specifications -/

theorem expectAnyOf_ok (ks : List TK) (t : TR) :
    Ok (expectAnyOf ks) t (fun _ t' => t'.inp.length ≤ t.inp.length ∧ mu t' + 1 ≤ mu t) := by
  unfold expectAnyOf
  wp []

theorem expectSeq_ok : ∀ (ks : List TK) (t : TR),
    Ok (expectSeq ks) t (fun _ t' => t'.inp.length ≤ t.inp.length ∧ mu t' + ks.length ≤ mu t)
  | [], t => by
    unfold expectSeq
    simp only [List.length_nil]
    wp []
  | k :: ks, t => by
    have ih := expectSeq_ok ks
    unfold expectSeq
    simp only [List.length_cons]
    wp [ih]

theorem optNewline_ok (t : TR) :
    Ok optNewline t (fun _ t' => t'.inp.length ≤ t.inp.length ∧ mu t' ≤ mu t + 1) := by
  unfold optNewline
  wp []

private theorem mu_le_len (t : TR) : mu t ≤ 2 * t.inp.length + 1 := by
  unfold mu; split <;> omega

theorem skipEol_ok : ∀ (f : Nat) (t : TR), mu t < f →
    Ok (skipEolComments f) t (fun _ t' => t'.inp.length ≤ t.inp.length ∧ mu t' ≤ mu t)
  | 0, _, h => by omega
  | f+1, t, h => by
    have ih := skipEol_ok f
    unfold skipEolComments
    wp [ih]

theorem skipEol_fuel (fuel : Nat) (t : TR) (h : 2 * t.inp.length + 2 ≤ fuel) :
    Ok (skipEolComments fuel) t (fun _ t' => t'.inp.length ≤ t.inp.length ∧ mu t' ≤ mu t) :=
  skipEol_ok fuel t (by have := mu_le_len t; omega)

theorem readDeprecated_ok (t : TR) :
    Ok readDeprecated t (fun _ t' => t'.inp.length ≤ t.inp.length ∧ mu t' + 4 ≤ mu t) := by
  unfold readDeprecated unquote
  wp [expectSeq_ok, optNewline_ok]

theorem suffixLoop_ok : ∀ (f : Nat) (ft : FT) (t : TR), mu t < f →
    Ok (readFieldType.suffixLoop f ft) t (fun _ t' => t'.inp.length ≤ t.inp.length ∧ mu t' ≤ mu t + 1)
  | 0, _, _, h => by omega
  | f+1, ft, t, h => by
    have ih := suffixLoop_ok f
    unfold readFieldType.suffixLoop
    wp [ih, expectSeq_ok]

theorem readFieldType_ok : ∀ (f : Nat) (t : TR), mu t < f →
    Ok (readFieldType f) t (fun _ t' => t'.inp.length ≤ t.inp.length ∧ mu t' + 1 ≤ mu t)
  | 0, _, h => by omega
  | f+1, t, h => by
    have ih := readFieldType_ok f
    have hs := suffixLoop_ok f
    unfold readFieldType
    wp [ih, hs, expectSeq_ok, expectAnyOf_ok]

theorem readFieldType_fuel (fuel : Nat) (t : TR) (h : 2 * t.inp.length + 2 ≤ fuel) :
    Ok (readFieldType fuel) t (fun _ t' => t'.inp.length ≤ t.inp.length ∧ mu t' + 1 ≤ mu t) :=
  readFieldType_ok fuel t (by have := mu_le_len t; omega)

theorem readUntilSemi_ok : ∀ (f : Nat) (acc : List Token) (t : TR), mu t < f →
    Ok (readUntilSemi f acc) t (fun _ t' => t'.inp.length ≤ t.inp.length ∧ mu t' ≤ mu t)
  | 0, _, _, h => by omega
  | f+1, acc, t, h => by
    have ih := readUntilSemi_ok f
    unfold readUntilSemi
    wp [ih]

theorem readUntilSemi_fuel (fuel : Nat) (acc : List Token) (t : TR) (h : 2 * t.inp.length + 2 ≤ fuel) :
    Ok (readUntilSemi fuel acc) t (fun _ t' => t'.inp.length ≤ t.inp.length ∧ mu t' ≤ mu t) :=
  readUntilSemi_ok fuel acc t (by have := mu_le_len t; omega)

theorem readEnumOptionValue_ok (fuel : Nat) (prev : List EnumOption) (bf us : Bool) (bits : Nat) (t : TR)
    (h : 2 * t.inp.length + 2 ≤ fuel) :
    Ok (readEnumOptionValue fuel prev bf us bits) t (fun _ t' => t'.inp.length ≤ t.inp.length ∧ mu t' ≤ mu t) := by
  unfold readEnumOptionValue
  wp [expectSeq_ok, readUntilSemi_fuel]

theorem enumLoop_ok (fuel : Nat) (bf us : Bool) (bits : Nat) : ∀ (f : Nat) (opts : List EnumOption) (st : BodySt) (t : TR),
    mu t < f → 2 * t.inp.length + 2 ≤ fuel →
    Ok (readEnum.loop fuel bf bits us f opts st) t (fun _ t' => t'.inp.length ≤ t.inp.length ∧ mu t' ≤ mu t)
  | 0, _, _, _, h, _ => by omega
  | f+1, opts, st, t, h, hF => by
    have ih := enumLoop_ok fuel bf us bits f
    unfold readEnum.loop
    wp [ih, readEnumOptionValue_ok, readDeprecated_ok]

theorem readEnum_ok (fuel : Nat) (bf : Bool) (t : TR) (h : 2 * t.inp.length + 2 ≤ fuel) :
    Ok (readEnum fuel bf) t (fun _ t' => t'.inp.length ≤ t.inp.length ∧ mu t' ≤ mu t) := by
  have hl : ∀ us bits opts st (t : TR), 2 * t.inp.length + 2 ≤ fuel →
      Ok (readEnum.loop fuel bf bits us fuel opts st) t (fun _ t' => t'.inp.length ≤ t.inp.length ∧ mu t' ≤ mu t) :=
    fun us bits opts st t h2 => enumLoop_ok fuel bf us bits fuel opts st t (by have := mu_le_len t; omega) h2
  unfold readEnum
  wp [expectSeq_ok, expectAnyOf_ok, optNewline_ok, hl]

theorem structLoop_ok (fuel : Nat) : ∀ (f : Nat) (fields : List Field) (st : BodySt) (t : TR),
    mu t < f → 2 * t.inp.length + 2 ≤ fuel →
    Ok (readStruct.loop fuel f fields st) t (fun _ t' => t'.inp.length ≤ t.inp.length ∧ mu t' ≤ mu t)
  | 0, _, _, _, h, _ => by omega
  | f+1, fields, st, t, h, hF => by
    have ih := structLoop_ok fuel f
    unfold readStruct.loop noteLineComment parseCommentTag
    wp [ih, readFieldType_fuel, expectSeq_ok, skipEol_fuel, readDeprecated_ok]

theorem readStruct_ok (fuel : Nat) (t : TR) (h : 2 * t.inp.length + 2 ≤ fuel) :
    Ok (readStruct fuel) t (fun _ t' => t'.inp.length ≤ t.inp.length ∧ mu t' ≤ mu t) := by
  have hl : ∀ fields st (t : TR), 2 * t.inp.length + 2 ≤ fuel →
      Ok (readStruct.loop fuel fuel fields st) t (fun _ t' => t'.inp.length ≤ t.inp.length ∧ mu t' ≤ mu t) :=
    fun fields st t h2 => structLoop_ok fuel fuel fields st t (by have := mu_le_len t; omega) h2
  unfold readStruct
  wp [expectSeq_ok, optNewline_ok, hl]

theorem messageLoop_ok (fuel : Nat) : ∀ (f : Nat) (fields : List (Nat × Field)) (st : BodySt) (t : TR),
    mu t < f → 2 * t.inp.length + 2 ≤ fuel →
    Ok (readMessage.loop fuel f fields st) t (fun _ t' => t'.inp.length ≤ t.inp.length ∧ mu t' ≤ mu t)
  | 0, _, _, _, h, _ => by omega
  | f+1, fields, st, t, h, hF => by
    have ih := messageLoop_ok fuel f
    unfold readMessage.loop noteLineComment parseCommentTag
    wp [ih, readFieldType_fuel, expectSeq_ok, expectAnyOf_ok, skipEol_fuel, readDeprecated_ok]

theorem readMessage_ok (fuel : Nat) (t : TR) (h : 2 * t.inp.length + 2 ≤ fuel) :
    Ok (readMessage fuel) t (fun _ t' => t'.inp.length ≤ t.inp.length ∧ mu t' ≤ mu t) := by
  have hl : ∀ fields st (t : TR), 2 * t.inp.length + 2 ≤ fuel →
      Ok (readMessage.loop fuel fuel fields st) t (fun _ t' => t'.inp.length ≤ t.inp.length ∧ mu t' ≤ mu t) :=
    fun fields st t h2 => messageLoop_ok fuel fuel fields st t (by have := mu_le_len t; omega) h2
  unfold readMessage
  wp [expectSeq_ok, optNewline_ok, hl]

theorem unionLoop_ok (fuel : Nat) : ∀ (f : Nat) (fields : List (Nat × UnionField)) (st : BodySt) (t : TR),
    mu t < f → 2 * t.inp.length + 2 ≤ fuel →
    Ok (readUnion.loop fuel f fields st) t (fun _ t' => t'.inp.length ≤ t.inp.length ∧ mu t' ≤ mu t)
  | 0, _, _, _, h, _ => by omega
  | f+1, fields, st, t, h, hF => by
    have ih := unionLoop_ok fuel f
    unfold readUnion.loop noteLineComment parseCommentTag
    wp [ih, readMessage_ok, readStruct_ok, expectSeq_ok, expectAnyOf_ok, skipEol_fuel, optNewline_ok, readDeprecated_ok]

theorem readUnion_ok (fuel : Nat) (t : TR) (h : 2 * t.inp.length + 2 ≤ fuel) :
    Ok (readUnion fuel) t (fun _ t' => t'.inp.length ≤ t.inp.length ∧ mu t' ≤ mu t) := by
  have hl : ∀ fields st (t : TR), 2 * t.inp.length + 2 ≤ fuel →
      Ok (readUnion.loop fuel fuel fields st) t (fun _ t' => t'.inp.length ≤ t.inp.length ∧ mu t' ≤ mu t) :=
    fun fields st t h2 => unionLoop_ok fuel fuel fields st t (by have := mu_le_len t; omega) h2
  unfold readUnion
  wp [expectSeq_ok, optNewline_ok, hl]

theorem readConst_ok (fuel : Nat) (t : TR) (h : 2 * t.inp.length + 2 ≤ fuel) :
    Ok (readConst fuel) t (fun _ t' => t'.inp.length ≤ t.inp.length ∧ mu t' ≤ mu t) := by
  unfold readConst
  wp [expectSeq_ok, optNewline_ok, skipEol_fuel]

theorem readOpCode_ok (t : TR) :
    Ok readOpCode t (fun _ t' => t'.inp.length ≤ t.inp.length ∧ mu t' + 4 ≤ mu t) := by
  unfold readOpCode
  wp [expectSeq_ok, expectAnyOf_ok, optNewline_ok]

theorem stepTop_ok (fuel : Nat) (st : TopSt) (tk : Token) (t : TR) (h : 2 * t.inp.length + 2 ≤ fuel) :
    Ok (stepTop fuel st tk) t (fun _ t' => t'.inp.length ≤ t.inp.length ∧ mu t' ≤ mu t) := by
  unfold stepTop unquote
  wp [expectSeq_ok, expectAnyOf_ok, optNewline_ok, readOpCode_ok, readEnum_ok, readStruct_ok, readMessage_ok,
    readUnion_ok, readConst_ok]

theorem readFileLoop_ok (fuel : Nat) : ∀ (f : Nat) (st : TopSt) (t : TR), mu t < f → 2 * t.inp.length + 2 ≤ fuel →
    Ok (readFileLoop fuel f st) t (fun _ _ => True)
  | 0, _, _, h, _ => by omega
  | f+1, st, t, h, hF => by
    have ih := readFileLoop_ok fuel f
    unfold readFileLoop
    wp [ih, stepTop_ok]

/-- **ReadFile always terminates** (property C10 on the model): with the fuel `readFile` itself supplies, no
    loop of the parser — the top-level loop, the enum / struct / message / union body loops, `readFieldType`'s
    recursion and `[]` loop, `readUntil(';')`, `skipEndOfLineComments` — runs out of fuel, for every input
    and for both endings of the reader (EOF, or a persistent I/O error). -/
theorem readFile_never_out_of_fuel (inp : List Byte) (ioFail : Bool) : readFile inp ioFail ≠ .fuel := by
  have hmu : mu (mkTR inp ioFail) = 2 * inp.length := by simp [mu, mkTR]
  have h := readFileLoop_ok (2 * inp.length + 4) (2 * inp.length + 4) {} (mkTR inp ioFail)
    (by omega) (by show 2 * inp.length + 2 ≤ _; omega)
  unfold Ok at h
  unfold readFile
  simp only
  cases hr : readFileLoop (2 * inp.length + 4) (2 * inp.length + 4) {} (mkTR inp ioFail) with
  | ok f t => simp only; split <;> (try split) <;> intro hh <;> cases hh
  | err t => simp only; split <;> (try split) <;> intro hh <;> cases hh
  | fuel => rw [hr] at h; exact absurd h id
  | decline t => intro hh; cases hh

end PT

/-- ReadFile never runs out of the fuel it supplies itself. -/
theorem readFile_never_out_of_fuel (inp : List Byte) (ioFail : Bool) : readFile inp ioFail ≠ .fuel :=
  PT.readFile_never_out_of_fuel inp ioFail

end Bebop.Text
