/-
  Parser: operational model of parse.go / parse_expr.go / eval_expr.go (ReadFile).

  It mirrors the Go statement by statement: the "pending attribute" variables of the top-level loop and of
  every definition body are explicit loop state; `optNewline`, `UnNext` and `skipEndOfLineComments` are the
  token-reader operations they are in Go; errors are returned exactly where Go returns them (only their
  presence is compared, never their text).  Loops run on fuel; `PR.fuel` is proved unreachable for
  the fuel `readFile` supplies.
-/
import Bebop.Text.Tokenizer
import Bebop.Text.Ast

namespace Bebop.Text

inductive PR (α : Type) where
  | ok (a : α) (t : TR)
  | err (t : TR)        -- a non-nil error is returned
  | fuel
  | decline (t : TR)    -- outside the model (escapes in strings whose unquoted value matters)
  deriving Inhabited

def P (α : Type) := TR → PR α

instance : Monad P where
  pure a := fun t => .ok a t
  bind m f := fun t =>
    match m t with
    | .ok a t' => f a t'
    | .err t' => .err t'
    | .fuel => .fuel
    | .decline t' => .decline t'

def fail {α} : P α := fun t => .err t
def declined {α} : P α := fun t => .decline t
def outOfFuel {α} : P α := fun _ => .fuel
def getTR : P TR := fun t => .ok t t
def pNext : P Bool := fun t => let (r, t') := next t; .ok r t'
def pTok : P Token := fun t => .ok t.nextTok t
def pUnNext : P Unit := fun t => .ok () { t with keep := true }
def pHasErr : P Bool := fun t => .ok (hasErr t) t

/-- expectAnyOfNext -/
def expectAnyOf (kinds : List TK) : P Unit := do
  let nx ← pNext
  if (← pHasErr) then fail
  else if !nx then fail
  else
    let tk ← pTok
    if kinds.contains tk.kind then pure () else fail

/-- expectNext: the tokens, in order. -/
def expectSeq : List TK → P (List Token)
  | [] => pure []
  | k :: ks => do
    let nx ← pNext
    if (← pHasErr) then fail
    else if !nx then fail
    else
      let tk ← pTok
      if tk.kind != k then fail
      else do
        let rest ← expectSeq ks
        pure (tk :: rest)

/-- optNewline -/
def optNewline : P Unit := do
  let _ ← pNext
  let tk ← pTok
  if tk.kind != .newline then pUnNext else pure ()

/-- strconv.Unquote of a string literal token, inside the model's domain only. -/
def unquote (tk : Token) : P Str :=
  match plainQuoted tk.concrete with
  | some s => pure s
  | none => declined

def joinLines (ls : List Str) : Str :=
  match ls with
  | [] => []
  | l :: rest => rest.foldl (fun acc x => acc ++ [10] ++ x) l

/-- readBlockComment -/
def blockCommentText (tk : Token) : Str := (tk.concrete.drop 2).take (tk.concrete.length - 4)

/-- sanitizeComment: drop "//", then strings.Trim(comment, "\r\n") -/
def lineCommentText (tk : Token) : Str :=
  let c := tk.concrete.drop 2
  let isNl := fun (x : Byte) => x == 13 || x == 10
  ((c.dropWhile isNl).reverse.dropWhile isNl).reverse

/-- parseCommentTag as a pure function: `some none`: not a tag; `none`: outside the model (the value
    would need real unquoting). -/
def commentTag (s : Str) : Option (Option Tag) :=
  let pre := strOf "[tag("
  let suf := strOf ")]"
  if s.length < pre.length + suf.length || s.take pre.length != pre || s.drop (s.length - suf.length) != suf then
    some none
  else
    let body := (s.drop pre.length).take (s.length - pre.length - suf.length)
    let key := body.takeWhile (· != 0x3a)
    if key.length == body.length then some (some { key := key, value := [], boolean := true })
    else
      let value := body.drop (key.length + 1)
      match plainQuoted value with
      | some v => some (some { key := key, value := v, boolean := false })
      | none =>
        -- strconv.Unquote fails on anything that is not a quoted literal: not a tag. A quoted literal
        -- with escapes would need real unquoting: outside the model.
        if value.head? == some 0x22 && value.getLast? == some 0x22 && value.length ≥ 2 then none
        else if value.head? == some 0x60 || value.head? == some 0x27 then none
        else some none

def parseCommentTag (s : Str) : P (Option Tag) :=
  match commentTag s with
  | some r => pure r
  | none => declined

/-- skipEndOfLineComments -/
def skipEolComments : Nat → P Unit
  | 0 => outOfFuel
  | f+1 => do
    let nx ← pNext
    if !nx then pure ()
    else
      let tk ← pTok
      if tk.kind == .lineComment then pure ()
      else if tk.kind == .blockComment then skipEolComments f
      else pUnNext

/-- readDeprecated -/
def readDeprecated : P Str := do
  let toks ← expectSeq [.kDeprecated, .openParen, .strLit, .closeParen, .closeSquare]
  let msg ← unquote (toks.getD 2 {})
  optNewline
  pure msg

/-- readFieldType -/
def readFieldType : Nat → P FT
  | 0 => outOfFuel
  | f+1 => do
    expectAnyOf [.ident, .kArray, .kMap]
    let tk ← pTok
    let ft ← (match tk.kind with
      | .kMap => do
        let _ ← expectSeq [.openSquare]
        let keyT ← readFieldType f
        match keyT with
        | .simple k =>
          if !isPrimitiveName k then fail
          else do
            let _ ← expectSeq [.comma]
            let valT ← readFieldType f
            let _ ← expectSeq [.closeSquare]
            pure (FT.map k valT)
        | _ => fail
      | .kArray => do
        let _ ← expectSeq [.openSquare]
        let arT ← readFieldType f
        let _ ← expectSeq [.closeSquare]
        pure (FT.arr arT)
      | _ => pure (FT.simple tk.concrete) : P FT)
    -- this might have been followed by []
    let nx ← pNext
    if !nx then pure ft
    else suffixLoop f ft
where
  suffixLoop : Nat → FT → P FT
    | 0, _ => outOfFuel
    | f+1, ft => do
      let tk ← pTok
      if tk.kind == .openSquare then do
        let _ ← expectSeq [.closeSquare]
        let ft' := FT.arr ft
        let nx ← pNext
        if !nx then pure ft' else suffixLoop f ft'
      else do
        pUnNext
        pure ft

/-! ### [flags] expressions -/

inductive Expr where
  | ident (name : Str)
  | num (text : Str)
  | paren (e : Expr)
  | bin (op : TK) (l r : Expr)
  deriving Repr, Inhabited

/-- parseBitflagExpr over a token list (right-nested, no precedence). `none`: error. -/
def parseExpr : Nat → List Token → Option Expr
  | 0, _ => none
  | f+1, toks =>
    match toks with
    | [] => none
    | t0 :: _ =>
      let lhsR : Option (Expr × Nat) :=
        match t0.kind with
        | .ident => some (.ident t0.concrete, 0)
        | .intLit => some (.num t0.concrete, 0)
        | .openParen =>
          -- parseParenExpr(1, toks): find the matching close
          let rec scan (j : Nat) (need : Nat) (fu : Nat) : Nat :=
            match fu with
            | 0 => j
            | fu+1 =>
              match toks[j]? with
              | none => j
              | some tk =>
                if tk.kind == .openParen then scan (j+1) (need+1) fu
                else if tk.kind == .closeParen then (if need = 1 then j else scan (j+1) (need-1) fu)
                else scan (j+1) need fu
          let j := scan 1 1 (toks.length + 1)
          match parseExpr f ((toks.take j).drop 1) with
          | some inner => some (.paren inner, j)
          | none => none
        | _ => none
      match lhsR with
      | none => none
      | some (lhs, i0) =>
        let i := i0 + 1
        if i ≥ toks.length then some lhs
        else
          match toks[i]? with
          | none => some lhs
          | some op =>
            if op.kind == .amp || op.kind == .vbar || op.kind == .dblLeft || op.kind == .dblRight then
              match parseExpr f (toks.drop (i+1)) with
              | some rhs => some (.bin op.kind lhs rhs)
              | none => none
            else none

/-- Go conversion T(x) to a `bits`-wide signed / unsigned integer. -/
def wrapTo (bits : Nat) (unsigned : Bool) (x : Int) : Int :=
  let m : Int := (2 ^ bits : Nat)
  let r := x % m
  if unsigned then r else if r < (2 ^ (bits - 1) : Nat) then r else r - m

def bitAnd (bits : Nat) (unsigned : Bool) (a c : Int) : Int :=
  let m : Int := (2 ^ bits : Nat)
  wrapTo bits unsigned (Int.ofNat (Nat.land (a % m).toNat (c % m).toNat))
def bitOr (bits : Nat) (unsigned : Bool) (a c : Int) : Int :=
  let m : Int := (2 ^ bits : Nat)
  wrapTo bits unsigned (Int.ofNat (Nat.lor (a % m).toNat (c % m).toNat))

/-- evaluateBitflagExpr in width-typed arithmetic. `none`: error. (Negative shift counts are errors
    since the fix; so are left shifts that lose bits or reach the sign bit.) -/
def evalExpr (bits : Nat) (unsigned : Bool) (opts : List EnumOption) : Expr → Option Int
  | .ident name =>
    match opts.find? (fun o => o.name == name) with
    | some o => some (wrapTo bits unsigned (if unsigned then (o.uvalue : Int) else o.value))
    | none => none
  | .num text =>
    -- parsed with the base type's bit size (the fix): an out-of-range literal is an error
    if unsigned then (parseUint text true bits).map (fun n => wrapTo bits unsigned n)
    else (parseInt text true bits).map (fun n => wrapTo bits unsigned n)
  | .paren e => evalExpr bits unsigned opts e
  | .bin op l r =>
    match evalExpr bits unsigned opts l, evalExpr bits unsigned opts r with
    | some a, some c =>
      match op with
      | .amp => some (bitAnd bits unsigned a c)
      | .vbar => some (bitOr bits unsigned a c)
      | .dblLeft =>
        -- `shifted := lhs << rhs`; accepted only if shifting back gives lhs again and the sign is kept
        if c < 0 then none
        else
          let shifted : Int := if c.toNat ≥ bits then 0 else wrapTo bits unsigned (a * (2 ^ c.toNat : Nat))
          let back : Int := if c.toNat ≥ bits then (if shifted < 0 then -1 else 0) else shifted / (2 ^ c.toNat : Nat)
          if back == a && (unsigned || decide (shifted < 0) == decide (a < 0)) then some shifted else none
      | .dblRight =>
        if c < 0 then none
        else if c.toNat ≥ bits then some (if a < 0 then -1 else 0)
        else some (a / (2 ^ c.toNat : Nat))      -- Int division rounds toward -∞: arithmetic shift
      | _ => none
    | _, _ => none

/-- readUntil(semicolon) -/
def readUntilSemi : Nat → List Token → P (List Token)
  | 0, _ => outOfFuel
  | f+1, acc => do
    let nx ← pNext
    if !nx then fail
    else
      let tk ← pTok
      if tk.kind == .semicolon then pure acc.reverse else readUntilSemi f (tk :: acc)

/-- readEnumOptionValue -/
def readEnumOptionValue (fuel : Nat) (prev : List EnumOption) (bitflags unsigned : Bool) (bits : Nat) : P (Int × Nat) := do
  let _ ← expectSeq [.equals]
  if !bitflags then do
    let toks ← expectSeq [.intLit, .semicolon]
    match toks with
    | tk :: _ =>
      if unsigned then
        match parseUint tk.concrete true bits with
        | some n => pure (0, n)
        | none => fail
      else
        match parseInt tk.concrete true bits with
        | some n => pure (n, 0)
        | none => fail
    | [] => fail
  else do
    let toks ← readUntilSemi fuel []
    match parseExpr (toks.length + 1) toks with
    | none => fail
    | some e =>
      match evalExpr bits unsigned prev e with
      | none => fail
      | some v => if unsigned then pure (0, v.toNat) else pure (v, 0)

structure BodySt where
  comments : List Str := []
  tags : List Tag := []
  depMsg : Str := []
  isDep : Bool := false

/-- readEnum (after the `enum` keyword). -/
def readEnum (fuel : Nat) (bitflags : Bool) : P Enum := do
  let toks ← expectSeq [.ident]
  let name := (toks.headD {}).concrete
  expectAnyOf [.colon, .openCurly]
  let tk ← pTok
  let simpleType ← (if tk.kind == .colon then do
      let ts ← expectSeq [.ident, .openCurly]
      let sz := (ts.headD {}).concrete
      if !isUintName sz && !isIntName sz then fail else pure sz
    else pure (strOf "uint32") : P Str)
  optNewline
  match decodeInteger simpleType with
  | none => fail          -- decodeIntegerType panics on a non-integer; unreachable after the check above
  | some (bits, unsigned) =>
    let rec loop (f : Nat) (opts : List EnumOption) (st : BodySt) : P (List EnumOption) :=
      match f with
      | 0 => outOfFuel
      | f+1 => do
        let cur ← pTok
        if cur.kind == .closeCurly then pure opts
        else
          let nx ← pNext
          if !nx then fail
          else
            let tk ← pTok
            match tk.kind with
            | .newline => loop f opts { st with comments := [] }
            | .ident => do
              let (sv, uv) ← readEnumOptionValue fuel opts bitflags unsigned bits
              let o : EnumOption := { name := tk.concrete, comment := joinLines st.comments, depMsg := st.depMsg,
                                      value := sv, uvalue := uv, deprecated := st.isDep }
              loop f (opts ++ [o]) {}
            | .openSquare =>
              if st.isDep then fail
              else do
                let msg ← readDeprecated
                loop f opts { st with isDep := true, depMsg := msg }
            | .blockComment => loop f opts { st with comments := st.comments ++ [blockCommentText tk] }
            | .lineComment => loop f opts { st with comments := st.comments ++ [lineCommentText tk] }
            | _ => loop f opts st
    do
      let opts ← loop fuel [] {}
      pure { name := name, options := opts, simpleType := simpleType, unsigned := unsigned }

/-- the tag / comment bookkeeping of a `//` line inside a struct, message or union body -/
def noteLineComment (st : BodySt) (tk : Token) : P BodySt := do
  let cmt := lineCommentText tk
  let tag ← parseCommentTag cmt
  let tags := match tag with | some tg => st.tags ++ [tg] | none => st.tags
  pure { st with comments := st.comments ++ [cmt], tags := tags }

/-- readStruct (after the `struct` keyword). -/
def readStruct (fuel : Nat) : P Struct := do
  let toks ← expectSeq [.ident, .openCurly]
  let name := (toks.headD {}).concrete
  optNewline
  let rec loop (f : Nat) (fields : List Field) (st : BodySt) : P (List Field) :=
    match f with
    | 0 => outOfFuel
    | f+1 => do
      let cur ← pTok
      if cur.kind == .closeCurly then pure fields
      else
        let nx ← pNext
        if !nx then fail
        else
          let tk ← pTok
          match tk.kind with
          | .newline => loop f fields { st with comments := [] }
          | .ident | .kArray | .kMap => do
            pUnNext
            let ft ← readFieldType fuel
            let ts ← expectSeq [.ident, .semicolon]
            let fd : Field := { ft := ft, name := (ts.headD {}).concrete, comment := joinLines st.comments,
                                tags := st.tags, depMsg := st.depMsg, deprecated := st.isDep }
            skipEolComments fuel
            loop f (fields ++ [fd]) {}
          | .openSquare =>
            if st.isDep then fail
            else do
              let msg ← readDeprecated
              loop f fields { st with isDep := true, depMsg := msg }
          | .blockComment => loop f fields { st with comments := st.comments ++ [blockCommentText tk] }
          | .lineComment => do
            let st' ← noteLineComment st tk
            loop f fields st'
          | _ => loop f fields st
  do
    let fields ← loop fuel [] {}
    pure { name := name, fields := fields }

/-- readMessage (after the `message` keyword). Index 0 is rejected since the fix. -/
def readMessage (fuel : Nat) : P Message := do
  let toks ← expectSeq [.ident, .openCurly]
  let name := (toks.headD {}).concrete
  optNewline
  let rec loop (f : Nat) (fields : List (Nat × Field)) (st : BodySt) : P (List (Nat × Field)) :=
    match f with
    | 0 => outOfFuel
    | f+1 => do
      let cur ← pTok
      if cur.kind == .closeCurly then pure fields
      else do
        expectAnyOf [.newline, .intLit, .openSquare, .blockComment, .lineComment, .closeCurly]
        let tk ← pTok
        match tk.kind with
        | .newline => loop f fields { st with comments := [] }
        | .intLit =>
          match parseUint tk.concrete false 8 with
          | none => fail
          | some idx =>
            if idx == 0 then fail
            else if fields.any (·.1 == idx) then fail
            else do
              let _ ← expectSeq [.arrow]
              let ft ← readFieldType fuel
              let ts ← expectSeq [.ident, .semicolon]
              let fd : Field := { ft := ft, name := (ts.headD {}).concrete, comment := joinLines st.comments,
                                  tags := st.tags, depMsg := st.depMsg, deprecated := st.isDep }
              skipEolComments fuel
              loop f (fields ++ [(idx, fd)]) {}
        | .openSquare =>
          if st.isDep then fail
          else do
            let msg ← readDeprecated
            loop f fields { st with isDep := true, depMsg := msg }
        | .blockComment => loop f fields { st with comments := st.comments ++ [blockCommentText tk] }
        | .lineComment => do
          let st' ← noteLineComment st tk
          loop f fields st'
        | _ => loop f fields st
  do
    let fields ← loop fuel [] {}
    pure { name := name, fields := fields }

/-- readUnion (after the `union` keyword). -/
def readUnion (fuel : Nat) : P Union := do
  let toks ← expectSeq [.ident, .openCurly]
  let name := (toks.headD {}).concrete
  optNewline
  let rec loop (f : Nat) (fields : List (Nat × UnionField)) (st : BodySt) : P (List (Nat × UnionField)) :=
    match f with
    | 0 => outOfFuel
    | f+1 => do
      let cur ← pTok
      if cur.kind == .closeCurly then pure fields
      else
        let nx ← pNext
        if !nx then fail
        else
          let tk ← pTok
          match tk.kind with
          | .newline => loop f fields { st with comments := [] }
          | .intLit =>
            match parseUint tk.concrete false 8 with
            | none => fail
            | some idx =>
              if fields.any (·.1 == idx) then fail
              else do
                let _ ← expectSeq [.arrow]
                expectAnyOf [.kMessage, .kStruct]
                let k ← pTok
                let body ← (if k.kind == .kMessage then do
                    let m ← readMessage fuel
                    pure (UBody.msg { m with comment := joinLines st.comments })
                  else do
                    let s ← readStruct fuel
                    pure (UBody.st { s with comment := joinLines st.comments }) : P UBody)
                let uf : UnionField := { body := body, tags := st.tags, depMsg := st.depMsg, deprecated := st.isDep }
                -- move off the member's close curly without consuming what follows it
                (fun t => PR.ok () { t with keep := false } : P Unit)
                let more ← pNext
                if !more then fail else do
                pUnNext
                skipEolComments fuel
                optNewline
                loop f (fields ++ [(idx, uf)]) {}
          | .openSquare =>
            if st.isDep then fail
            else do
              let msg ← readDeprecated
              loop f fields { st with isDep := true, depMsg := msg }
          | .blockComment => loop f fields { st with comments := st.comments ++ [blockCommentText tk] }
          | .lineComment => do
            let st' ← noteLineComment st tk
            loop f fields st'
          | _ => loop f fields st
  do
    let fields ← loop fuel [] {}
    pure { name := name, fields := fields }

/-- readConst (after the `const` keyword). Warnings are not modelled (they never change the result). -/
def readConst (fuel : Nat) : P Const := do
  let toks ← expectSeq [.ident, .ident, .equals]
  let ty := (toks.headD {}).concrete
  let name := ((toks.drop 1).headD {}).concrete
  let nx ← pNext
  if !nx then fail
  else
    let tk ← pTok
    let value ← (
      if isUintName ty || isIntName ty then
        (if tk.kind != .intLit then fail else pure tk.concrete)
      else if isFloatName ty then
        (match tk.kind with
          | .kInf => pure (strOf "math.Inf(1)")
          | .negInf => pure (strOf "math.Inf(-1)")
          | .kNaN => pure (strOf "math.NaN()")
          | .intLit => pure tk.concrete
          | .floatLit => pure tk.concrete
          | _ => fail)
      else if strEq ty "guid" then
        (if tk.kind != .strLit then fail
         else if ((trimQuotes tk.concrete).filter (· != 0x2d)).length != 32 then fail
         else pure tk.concrete)
      else if strEq ty "string" then
        (if tk.kind != .strLit then fail
         else if !goStringLitOk tk.concrete then fail      -- the literal is copied into the Go source as it stands
         else pure tk.concrete)
      else if strEq ty "bool" then
        (if tk.kind != .kTrue && tk.kind != .kFalse then fail else pure tk.concrete)
      else fail : P Str)
    let _ ← expectSeq [.semicolon]
    skipEolComments fuel
    optNewline
    pure { simpleType := ty, name := name, value := value }

/-- readOpCode (the `[` has been consumed and `opcode` un-read). -/
def readOpCode : P Nat := do
  let _ ← expectSeq [.kOpCode, .openParen]
  expectAnyOf [.intLit, .strLit]
  let tk ← pTok
  let code ← (
    if tk.kind == .intLit then
      (match parseUint tk.concrete true 32 with
        | some n => pure n
        | none => fail)
    else
      let c := trimQuotes tk.concrete
      if c.length != 4 then fail
      else pure (ofLe c) : P Nat)
  let _ ← expectSeq [.closeParen, .closeSquare]
  optNewline
  pure code

structure TopSt where
  file : File := {}
  comments : List Str := []
  opCode : Nat := 0
  readOnly : Bool := false
  bitFlags : Bool := false

/-- One iteration of ReadFile's top-level loop, for the token `tk` that was just read: the new loop state. -/
def stepTop (fuel : Nat) (st : TopSt) (tk : Token) : P TopSt :=
  let reset := fun (st : TopSt) => { st with comments := [], opCode := 0, bitFlags := false }
  match tk.kind with
  | .kImport => do
    let ts ← expectSeq [.strLit]
    let imp ← unquote (ts.headD {})
    pure { st with file := { st.file with imports := st.file.imports ++ [imp] } }
  | .newline => pure { st with comments := [] }
  | .blockComment => pure { st with comments := st.comments ++ [blockCommentText tk] }
  | .lineComment => pure { st with comments := st.comments ++ [lineCommentText tk] }
  | .openSquare => do
    expectAnyOf [.kOpCode, .kFlags]
    let k ← pTok
    if k.kind == .kOpCode then do
      pUnNext
      let code ← readOpCode
      pure { st with opCode := code }
    else do
      expectAnyOf [.closeSquare]
      optNewline
      pure { st with bitFlags := true }
  | .kEnum =>
    if st.opCode != 0 then fail
    else do
      let en ← readEnum fuel st.bitFlags
      let en := { en with comment := joinLines st.comments }
      pure (reset { st with file := { st.file with enums := st.file.enums ++ [en] } })
  | .kReadOnly => do
    let nx ← pNext
    if !nx then fail
    else
      let k ← pTok
      if k.kind != .kStruct then fail
      else if st.bitFlags then fail
      else do
        let s ← readStruct fuel
        let s := { s with comment := joinLines st.comments, opCode := st.opCode, readOnly := true }
        pure (reset { st with file := { st.file with structs := st.file.structs ++ [s] }, readOnly := false })
  | .kStruct =>
    if st.bitFlags then fail
    else do
      let s ← readStruct fuel
      let s := { s with comment := joinLines st.comments, opCode := st.opCode, readOnly := st.readOnly }
      pure (reset { st with file := { st.file with structs := st.file.structs ++ [s] }, readOnly := false })
  | .kMessage =>
    if st.bitFlags then fail
    else do
      let m ← readMessage fuel
      let m := { m with comment := joinLines st.comments, opCode := st.opCode }
      pure (reset { st with file := { st.file with messages := st.file.messages ++ [m] } })
  | .kUnion =>
    if st.bitFlags then fail
    else do
      let u ← readUnion fuel
      let u := { u with comment := joinLines st.comments, opCode := st.opCode }
      pure (reset { st with file := { st.file with unions := st.file.unions ++ [u] } })
  | .kConst =>
    if st.bitFlags then fail
    else if st.opCode != 0 then fail
    else do
      let c ← readConst fuel
      let c := { c with comment := joinLines st.comments }
      let gp ← (if strEq c.name "go_package" && strEq c.simpleType "string" then
          (match plainQuoted c.value with
           | some s => pure s
           | none => declined)
        else pure st.file.goPackage : P Str)
      pure (reset { st with file := { st.file with consts := st.file.consts ++ [c], goPackage := gp } })
  | .closeCurly | .semicolon => pure st      -- the record readers may leave their closing token here: `continue`, nothing pending is reset
  | _ => fail                                         -- any other stray token is an error (the fix)

/-- ReadFile's top-level loop: `for tr.Next() { … }`, then the tokenizer's error if any (the fix). Go
    returns the partial File together with an error; only the presence of the error is compared then. -/
def readFileLoop (fuel : Nat) : Nat → TopSt → P File
  | 0, _ => outOfFuel
  | f+1, st => do
    let nx ← pNext
    if !nx then
      if (← pHasErr) then fail else pure st.file
    else do
      let tk ← pTok
      let st' ← stepTop fuel st tk
      readFileLoop fuel f st'

inductive ReadResult where
  | ok (f : File)
  | err
  | panic
  | fuel
  | declined
  deriving Inhabited

/-- bebop.ReadFile on a reader delivering `inp` and then EOF (or a persistent I/O error). -/
def readFile (inp : List Byte) (ioFail : Bool := false) : ReadResult :=
  let fuel := 2 * inp.length + 4
  match readFileLoop fuel fuel {} (mkTR inp ioFail) with
  | .ok f t => if t.panicked then .panic else if t.nonAscii then .declined else .ok f
  | .err t => if t.panicked then .panic else if t.nonAscii then .declined else .err
  | .fuel => .fuel
  | .decline _ => .declined

end Bebop.Text
