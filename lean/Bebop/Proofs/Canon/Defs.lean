/-
  Canon/Defs: the struct-only sub-language — abstract syntax (`CStruct`), its canonical text (`canonText`,
  the formatter's own output style), the `File` it denotes (`fileOf`), arbitrarily laid-out texts
  (`laidOut w`), the token list of a schema (`fileToks`), and the lexing theorem: every laid-out text of a
  well-formed schema is delivered by the tokenizer as exactly `fileToks`.
-/
import Bebop.Text.Ast
import Bebop.Proofs.Canon.Lexer

namespace Bebop.Text

/-- A struct of the sub-language: its name and its fields as (type name, field name). -/
structure CStruct where
  name : Str
  fields : List (Str × Str)

/-- An identifier of the sub-language: an ASCII letter followed by ASCII letters, digits and underscores,
    which the tokenizer does not classify as a keyword (`keywordKind` looks the word up in the
    regenerated `Facts.keywordTable`). -/
def IdentOk (s : Str) : Bool := identBytes s && (keywordKind s).isNone

def CStructOk (s : CStruct) : Prop :=
  IdentOk s.name = true ∧ ∀ f ∈ s.fields, IdentOk f.1 = true ∧ IdentOk f.2 = true

/-- "struct" -/
def kwStruct : Str := [115, 116, 114, 117, 99, 116]

/-- `\tType field;\n` -/
def fieldText (f : Str × Str) : Str := [9] ++ f.1 ++ [32] ++ f.2 ++ [59, 10]

/-- `struct Name {\n` fields `}\n` -/
def structText (s : CStruct) : Str :=
  kwStruct ++ [32] ++ s.name ++ [32, 123, 10] ++ (s.fields.map fieldText).flatten ++ [125, 10]

/-- The canonical text: the structs in order, separated by one empty line. -/
def canonText : List CStruct → Str
  | [] => []
  | [s] => structText s
  | s :: s' :: r => structText s ++ [10] ++ canonText (s' :: r)

def cstructOf (s : CStruct) : Struct :=
  { name := s.name, comment := [], opCode := 0, readOnly := false,
    fields := s.fields.map fun f =>
      { ft := FT.simple f.1, name := f.2, comment := [], tags := [], depMsg := [], deprecated := false } }

/-- The `File` a schema of the sub-language denotes. -/
def fileOf (ss : List CStruct) : File :=
  { structs := ss.map cstructOf, messages := [], enums := [], unions := [], consts := [], imports := [],
    goPackage := [] }

/-! ### laid-out texts

`w i j k` is the run of blanks used in struct number `i`, on line `j` of that struct (0: the header line,
1 … n: the field lines, n+1: the closing line), at slot `k`:

  slot 0  before `struct`            slot 5  before the field type (the indentation)
  slot 1  between `struct` and name  slot 6  between field type and field name
  slot 2  between name and `{`       slot 7  between field name and `;`
  slot 3  between `{` and newline    slot 8  between `;` and newline
  slot 4  on the separating empty    slot 9  before `}`
          line before the struct     slot 10 between `}` and newline
          (structs after the first)
-/

abbrev CLay := Nat → Nat → Nat → List Byte

/-- Every run consists of blanks (space, tab, CR); the two runs that separate two words are non-empty. -/
structure LayOk (w : CLay) : Prop where
  blank : ∀ i j k, ∀ c ∈ w i j k, isBlank c = true
  ne1 : ∀ i j, w i j 1 ≠ []
  ne6 : ∀ i j, w i j 6 ≠ []

/-- The layout of the canonical text. -/
def canonLay : CLay := fun _ _ k =>
  if k = 5 then [9] else if k = 1 ∨ k = 2 ∨ k = 6 then [32] else []

/-- field lines and the closing line, followed by `rest` -/
def layFields (v : Nat → Nat → List Byte) : List (Str × Str) → List Byte → List Byte
  | [], rest => v 0 9 ++ 125 :: (v 0 10 ++ 10 :: rest)
  | f :: fs, rest =>
    v 0 5 ++ (f.1 ++ (v 0 6 ++ (f.2 ++ (v 0 7 ++ 59 :: (v 0 8 ++ 10 :: layFields (fun j => v (j + 1)) fs rest)))))

def layStruct (v : Nat → Nat → List Byte) (s : CStruct) (rest : List Byte) : List Byte :=
  v 0 0 ++ (kwStruct ++ (v 0 1 ++ (s.name ++ (v 0 2 ++ 123 :: (v 0 3 ++ 10 ::
    layFields (fun j => v (j + 1)) s.fields rest)))))

def layTail (w : CLay) : List CStruct → List Byte
  | [] => []
  | s :: ss => w 0 0 4 ++ 10 :: layStruct (w 0) s (layTail (fun i => w (i + 1)) ss)

/-- The schema `ss` written with the layout `w`. -/
def laidOut (w : CLay) : List CStruct → List Byte
  | [] => []
  | s :: ss => layStruct (w 0) s (layTail (fun i => w (i + 1)) ss)

/-! ### tokens -/

def fieldToks : List (Str × Str) → List Token → List Token
  | [], rest => { kind := .closeCurly, concrete := [125] } :: { kind := .newline, concrete := [10] } :: rest
  | f :: fs, rest =>
    { kind := .ident, concrete := f.1 } :: { kind := .ident, concrete := f.2 } ::
    { kind := .semicolon, concrete := [59] } :: { kind := .newline, concrete := [10] } :: fieldToks fs rest

def structToks (s : CStruct) (rest : List Token) : List Token :=
  { kind := .kStruct, concrete := kwStruct } :: { kind := .ident, concrete := s.name } ::
  { kind := .openCurly, concrete := [123] } :: { kind := .newline, concrete := [10] } :: fieldToks s.fields rest

def tailToks : List CStruct → List Token
  | [] => []
  | s :: ss => { kind := .newline, concrete := [10] } :: structToks s (tailToks ss)

def fileToks : List CStruct → List Token
  | [] => []
  | s :: ss => structToks s (tailToks ss)

namespace Canon

/-! ### canonical text = the canonical layout -/

theorem layFields_canon (fs : List (Str × Str)) (rest : List Byte) :
    layFields (fun j k => canonLay 0 j k) fs rest = (fs.map fieldText).flatten ++ [125, 10] ++ rest := by
  induction fs with
  | nil => simp [layFields, canonLay]
  | cons f fs ih =>
    have : (fun j => (fun j k => canonLay 0 j k) (j + 1)) = (fun j k => canonLay 0 j k) := rfl
    simp only [layFields, this, ih]
    simp [canonLay, fieldText]

theorem layStruct_canon (s : CStruct) (rest : List Byte) :
    layStruct (canonLay 0) s rest = structText s ++ rest := by
  have : (fun j => canonLay 0 (j + 1)) = (fun j k => canonLay 0 j k) := rfl
  simp only [layStruct, this, layFields_canon]
  simp [canonLay, structText]

theorem canonLay_shift : (fun i => canonLay (i + 1)) = canonLay := rfl

theorem layTail_canon : ∀ (s : CStruct) (ss : List CStruct),
    structText s ++ layTail canonLay ss = canonText (s :: ss)
  | s, [] => by simp [layTail, canonText]
  | s, s' :: ss => by
    have ih := layTail_canon s' ss
    simp only [layTail, canonText, canonLay_shift, layStruct_canon, ih]
    simp [canonLay]

theorem laidOut_canon (ss : List CStruct) : laidOut canonLay ss = canonText ss := by
  cases ss with
  | nil => rfl
  | cons s ss => simp only [laidOut, canonLay_shift, layStruct_canon, layTail_canon]

theorem canonLay_ok : LayOk canonLay := by
  refine ⟨?_, ?_, ?_⟩
  · intro i j k c hc
    simp only [canonLay] at hc
    split at hc
    · simp at hc; subst hc; decide
    · split at hc
      · simp at hc; subst hc; decide
      · cases hc
  · intro i j; simp [canonLay]
  · intro i j; simp [canonLay]

/-! ### the lexing theorem -/

theorem kwStruct_ident : identBytes kwStruct = true := by decide

theorem idStop_nonempty {u : List Byte} (hu : Blanks u) (hne : u ≠ []) (r : List Byte) :
    idStop (u ++ r) = true := by
  cases u with
  | nil => exact absurd rfl hne
  | cons c u => exact idStop_blank hu.head _

/-- what the layout of one struct has to satisfy -/
structure VOk (v : Nat → Nat → List Byte) : Prop where
  bl : ∀ j k, Blanks (v j k)
  ne1 : ∀ j, v j 1 ≠ []
  ne6 : ∀ j, v j 6 ≠ []

theorem VOk.shift {v : Nat → Nat → List Byte} (h : VOk v) : VOk (fun j => v (j + 1)) :=
  ⟨fun j k => h.bl (j + 1) k, fun j => h.ne1 (j + 1), fun j => h.ne6 (j + 1)⟩

theorem layOk_v {w : CLay} (h : LayOk w) (i : Nat) : VOk (w i) :=
  ⟨fun j k => h.blank i j k, fun j => h.ne1 i j, fun j => h.ne6 i j⟩

theorem layOk_shift {w : CLay} (h : LayOk w) : LayOk (fun i => w (i + 1)) :=
  ⟨fun i j k => h.blank (i + 1) j k, fun i j => h.ne1 (i + 1) j, fun i j => h.ne6 (i + 1) j⟩

theorem identOk_split {s : Str} (h : IdentOk s = true) : identBytes s = true ∧ keywordKind s = none := by
  simp only [IdentOk, Bool.and_eq_true, Option.isNone_iff_eq_none] at h
  exact h

theorem lexI_identOk {id : Str} (hid : IdentOk id = true) {rest : List Byte} (hstop : idStop rest = true)
    {u : List Byte} (hu : Blanks u) {l : List Token} (hl : LexI l rest) :
    LexI ({ kind := .ident, concrete := id } :: l) (u ++ (id ++ rest)) := by
  obtain ⟨h1, h2⟩ := identOk_split hid
  have := LexI.ident h1 hstop hu hl
  rw [h2] at this
  exact this

theorem lex_fields : ∀ (fs : List (Str × Str)) (v : Nat → Nat → List Byte), VOk v →
    (∀ f ∈ fs, IdentOk f.1 = true ∧ IdentOk f.2 = true) → ∀ (rest : List Byte) (l : List Token),
    LexI l rest → LexI (fieldToks fs l) (layFields v fs rest)
  | [], v, hv, _, rest, l, hl => by
    simp only [fieldToks, layFields]
    exact LexI.single (by decide) sbk_close (hv.bl 0 9) (LexI.single (by decide) sbk_nl (hv.bl 0 10) hl)
  | f :: fs, v, hv, hf, rest, l, hl => by
    simp only [fieldToks, layFields]
    have hf0 := hf f (List.mem_cons_self)
    have ih := lex_fields fs (fun j => v (j + 1)) hv.shift (fun g hg => hf g (List.mem_cons_of_mem _ hg)) rest l hl
    refine lexI_identOk hf0.1 (idStop_nonempty (hv.bl 0 6) (hv.ne6 0) _) (hv.bl 0 5) ?_
    refine lexI_identOk hf0.2 (idStop_append (hv.bl 0 7) (idStop_semi _)) (hv.bl 0 6) ?_
    exact LexI.single (by decide) sbk_semi (hv.bl 0 7) (LexI.single (by decide) sbk_nl (hv.bl 0 8) ih)

theorem lex_struct (s : CStruct) (hs : CStructOk s) (v : Nat → Nat → List Byte) (hv : VOk v)
    (rest : List Byte) (l : List Token) (hl : LexI l rest) :
    LexI (structToks s l) (layStruct v s rest) := by
  simp only [structToks, layStruct]
  have hk := LexI.ident kwStruct_ident (idStop_nonempty (hv.bl 0 1) (hv.ne1 0) _) (hv.bl 0 0)
    (l := { kind := .ident, concrete := s.name } ::
      { kind := .openCurly, concrete := [123] } :: { kind := .newline, concrete := [10] } :: fieldToks s.fields l)
    (rest := v 0 1 ++ (s.name ++ (v 0 2 ++ 123 :: (v 0 3 ++ 10 :: layFields (fun j => v (j + 1)) s.fields rest))))
  rw [show keywordKind kwStruct = some .kStruct from kw_struct] at hk
  refine hk ?_
  refine lexI_identOk hs.1 (idStop_append (hv.bl 0 2) (idStop_open _)) (hv.bl 0 1) ?_
  exact LexI.single (by decide) sbk_open (hv.bl 0 2) (LexI.single (by decide) sbk_nl (hv.bl 0 3)
    (lex_fields s.fields _ hv.shift hs.2 rest l hl))

theorem lex_tail : ∀ (ss : List CStruct) (w : CLay), LayOk w → (∀ s ∈ ss, CStructOk s) →
    LexI (tailToks ss) (layTail w ss)
  | [], w, _, _ => by
    simp only [tailToks, layTail]
    exact LexI.eof Blanks.nil
  | s :: ss, w, hw, hs => by
    simp only [tailToks, layTail]
    have ih := lex_tail ss (fun i => w (i + 1)) (layOk_shift hw) (fun x hx => hs x (List.mem_cons_of_mem _ hx))
    exact LexI.single (by decide) sbk_nl (hw.blank 0 0 4)
      (lex_struct s (hs s (List.mem_cons_self)) (w 0) (layOk_v hw 0) _ _ ih)

/-- The tokenizer delivers every laid-out text of a well-formed schema as exactly `fileToks`. -/
theorem lex_file (ss : List CStruct) (w : CLay) (hw : LayOk w) (hs : ∀ s ∈ ss, CStructOk s) :
    LexI (fileToks ss) (laidOut w ss) := by
  cases ss with
  | nil => exact LexI.eof Blanks.nil
  | cons s ss =>
    simp only [fileToks, laidOut]
    exact lex_struct s (hs s (List.mem_cons_self)) (w 0) (layOk_v hw 0) _ _
      (lex_tail ss _ (layOk_shift hw) (fun x hx => hs x (List.mem_cons_of_mem _ hx)))

end Canon
end Bebop.Text
