#!/usr/bin/env python3
"""Regenerate registry.json: the proof obligations (theorem names) of each property, read off the
Lean property files, merged with the static per-property metadata in tools/registry.static.json."""
import json, os, re
ROOT = os.path.dirname(os.path.dirname(os.path.abspath(__file__)))
static = json.load(open(os.path.join(ROOT, "tools", "registry.static.json")))
reg = {}
for pid, ent in static.items():
    path = os.path.join(ROOT, "lean", *ent["lean_module"].split(".")) + ".lean"
    names = []
    if os.path.exists(path):
        ns = []
        for l in open(path):
            m = re.match(r"^namespace\s+(\S+)", l)
            if m:
                ns.append(m.group(1))
                continue
            m = re.match(r"^end\s+(\S+)", l)
            if m and ns and ns[-1] == m.group(1):
                ns.pop()
                continue
            m = re.match(r"^theorem\s+(%s_[A-Za-z0-9_']+)" % pid, l)
            if m:
                names.append(".".join(ns + [m.group(1)]))
    e = dict(ent)
    e["theorems"] = names
    reg[pid] = e
json.dump(reg, open(os.path.join(ROOT, "registry.json"), "w"), indent=1)
print({k: len(v["theorems"]) for k, v in reg.items()})
