/- Text-side (tokenizer / parser / formatter / validator / imports) operations of the driver. -/
namespace Driver.Text

def step (_toks : List String) : String := "bad-op text-side-not-built"

end Driver.Text
