/-
  Helper lemmas: the checked byte-slice decoder returns an error on every strict prefix of a valid
  encoding (it can neither succeed nor panic nor run out of fuel).
-/
import Bebop.Proofs.RoundTrip

namespace Bebop

theorem take_append_ge {α} (a b : List α) (k : Nat) (h : a.length ≤ k) :
    (a ++ b).take k = a ++ b.take (k - a.length) := by
  rw [List.take_append, List.take_of_length_le h]

theorem take_append_lt {α} (a b : List α) (k : Nat) (h : k ≤ a.length) :
    (a ++ b).take k = a.take k := by
  rw [List.take_append, show k - a.length = 0 by omega]; simp

theorem readN_short (n : Nat) (buf : List Byte) (h : buf.length < n) : readN true n buf = .err := by
  simp [readN, show ¬ n ≤ buf.length by omega]

theorem readU32_short (buf : List Byte) (h : buf.length < 4) : readU32 true buf = .err := by
  simp [readU32, readN_short 4 buf h]

theorem length_take_lt {α} (l : List α) (k : Nat) (h : k < l.length) : (l.take k).length = k := by
  simp [List.length_take]; omega

mutual
theorem trunc_dec (env : Env) (hE : EnvOk env) :
    (v : Val) → ∀ (ty : Ty) (f k : Nat), wt env ty v → rank v < f → k < (enc v).length →
      dec f env true ty ((enc v).take k) = .err
  | .scalar w n, ty, f, k, h, hf, hk => by
      match f, hf with
      | f+1, _ =>
      simp only [wt] at h
      obtain ⟨hn, h⟩ := h
      simp only [enc, length_leBytes] at hk
      have hl : ((leBytes w n).take k).length < w := by rw [length_take_lt _ _ (by simpa using hk)]; exact hk
      rcases h with h | h | h | h | h
      · obtain ⟨h, _⟩ := h; subst h; simp [dec, enc, readN_short _ _ hl]
      · obtain ⟨rfl, rfl, _⟩ := h; simp [dec, enc, Facts.szBool, readN_short _ _ hl]
      · obtain ⟨rfl, rfl⟩ := h; simp [dec, enc, Facts.szFloat32, readN_short _ _ hl]
      · obtain ⟨rfl, rfl⟩ := h; simp [dec, enc, Facts.szFloat64, readN_short _ _ hl]
      · obtain ⟨rfl, rfl, _⟩ := h; simp [dec, enc, Facts.szDate, readN_short _ _ hl]
  | .str bs, ty, f, k, h, hf, hk => by
      match f, hf with
      | f+1, _ =>
      simp only [wt] at h
      obtain ⟨rfl, hl⟩ := h
      simp only [enc, List.length_append, length_leBytes] at hk
      by_cases h4 : k < 4
      · have : ((leBytes 4 bs.length ++ bs).take k).length < 4 := by
          rw [length_take_lt _ _ (by simp; omega)]; exact h4
        simp [dec, enc, readU32_short _ this]
      · rw [show enc (.str bs) = leBytes 4 bs.length ++ bs by simp [enc],
          take_append_ge _ _ k (by simp; omega)]
        simp only [dec, readU32_append true bs.length _ hl, Res.ok_bind, length_leBytes]
        have : (bs.take (k - 4)).length < bs.length := by rw [length_take_lt _ _ (by omega)]; omega
        simp [readN_short _ _ this]
  | .guid bs, ty, f, k, h, hf, hk => by
      match f, hf with
      | f+1, _ =>
      simp only [wt] at h
      obtain ⟨rfl, hl⟩ := h
      simp only [enc, length_guidWire] at hk
      have : ((guidWire bs).take k).length < 16 := by rw [length_take_lt _ _ (by simpa using hk)]; exact hk
      simp [dec, enc, Facts.szGuid, readN_short _ _ this]
  | .arr vs, ty, f, k, h, hf, hk => by
      match f, hf with
      | f+1, hf =>
      simp only [wt] at h
      obtain ⟨t, rfl, hl, hw, hp⟩ := h
      simp only [rank] at hf
      have hf' : rankList vs < f := by omega
      simp only [enc, List.length_append, length_leBytes] at hk
      by_cases h4 : k < 4
      · have : ((leBytes 4 vs.length ++ encList vs).take k).length < 4 := by
          rw [length_take_lt _ _ (by simp; omega)]; exact h4
        simp [dec, enc, readU32_short _ this]
      · rw [show enc (.arr vs) = leBytes 4 vs.length ++ encList vs by simp [enc],
          take_append_ge _ _ k (by simp; omega)]
        simp only [dec, readU32_append true vs.length _ hl, Res.ok_bind, length_leBytes, if_true]
        have hk' : k - 4 < (encList vs).length := by omega
        cases hfs : fixedSize t with
        | none =>
          simp only
          rw [trunc_decN env hE vs t f (k - 4) hw hp hf' hk']
          simp
        | some s =>
          simp only
          have : ((encList vs).take (k - 4)).length < vs.length * s := by
            rw [length_take_lt _ _ hk', ← vsizeList_of_fixed env t s hfs vs hw, ← length_encList]; exact hk'
          rw [if_pos this]
  | .map kvs, ty, f, k, h, hf, hk => by
      match f, hf with
      | f+1, hf =>
      simp only [wt] at h
      obtain ⟨kt, t, rfl, _, hl, hw, hd⟩ := h
      simp only [rank] at hf
      have hf' : rankKVs kvs < f := by omega
      simp only [enc, List.length_append, length_leBytes] at hk
      by_cases h4 : k < 4
      · have : ((leBytes 4 kvs.length ++ encKVs kvs).take k).length < 4 := by
          rw [length_take_lt _ _ (by simp; omega)]; exact h4
        simp [dec, enc, readU32_short _ this]
      · rw [show enc (.map kvs) = leBytes 4 kvs.length ++ encKVs kvs by simp [enc],
          take_append_ge _ _ k (by simp; omega)]
        simp only [dec, readU32_append true kvs.length _ hl, Res.ok_bind, length_leBytes]
        rw [trunc_decEntries env hE kvs kt t f (k - 4) [] hw hd (by simp) hf' (by omega)]
        simp
  | .struct fs, ty, f, k, h, hf, hk => by
      match f, hf with
      | f+1, hf =>
      simp only [wt] at h
      obtain ⟨n, tys, rfl, hn, hw⟩ := h
      simp only [rank] at hf
      have hf' : rankList fs < f := by omega
      simp only [enc] at hk
      simp only [dec, hn, enc, trunc_decFields env hE fs tys f k hw hf' hk, Res.err_bind]
  | .msg fs, ty, f, k, h, hf, hk => by
      match f, hf with
      | 0, hf => simp [rank] at hf
      | 1, hf => simp [rank] at hf
      | f+2, hf =>
      simp only [wt] at h
      obtain ⟨n, fds, rfl, hn, hw, hsz⟩ := h
      simp only [rank] at hf
      have hf' : rankFields fs < f := by omega
      have hok : DefOk (.msg fds) := hE _ (List.mem_of_getElem? hn)
      have hlen : (encFields fs).length + 1 < 2^32 := by rw [length_encFields]; exact hsz
      have henc : enc (.msg fs) = leBytes 4 ((encFields fs).length + 1) ++ (encFields fs ++ [0]) := by
        simp [enc]
      rw [henc] at hk ⊢
      simp only [List.length_append, length_leBytes, List.length_singleton] at hk
      simp only [dec, hn]
      by_cases h4 : k < 4
      · have : ((leBytes 4 ((encFields fs).length + 1) ++ (encFields fs ++ [0])).take k).length < 4 := by
          rw [length_take_lt _ _ (by simp; omega)]; exact h4
        simp [decMsgBody, readN_short _ _ this]
      · rw [take_append_ge _ _ k (by simp; omega)]
        simp only [decMsgBody, readN_append' true 4 _ _ (length_leBytes 4 _), Res.ok_bind, length_leBytes]
        have hk' : k - 4 < (encFields fs).length + 1 := by omega
        have hl2 : ((encFields fs ++ [0]).take (k - 4)).length = k - 4 := by
          rw [length_take_lt _ _ (by simp; omega)]
        rw [hl2, trunc_decMsgLoop env hE fs fds f (k - 4) 0 [] (k - 4 + 1) hok hw hf' hk' (by omega)]
        simp
  | .union d v, ty, f, k, h, hf, hk => by
      match f, hf with
      | 0, hf => simp [rank] at hf
      | 1, hf => simp [rank] at hf
      | f+2, hf =>
      simp only [wt] at h
      obtain ⟨n, brs, m, rfl, hn, hd, hm, hw, hsz⟩ := h
      simp only [rank] at hf
      have hf' : rank v < f := by omega
      have henc : enc (.union d v) = leBytes 4 (enc v).length ++ (UInt8.ofNat d :: enc v) := by
        simp [enc]
      rw [henc] at hk ⊢
      simp only [List.length_append, length_leBytes, List.length_cons] at hk
      simp only [dec, hn]
      by_cases h4 : k < 4
      · have : ((leBytes 4 (enc v).length ++ (UInt8.ofNat d :: enc v)).take k).length < 4 := by
          rw [length_take_lt _ _ (by simp; omega)]; exact h4
        simp [decUnionBody, readN_short _ _ this]
      · rw [take_append_ge _ _ k (by simp; omega)]
        simp only [decUnionBody, readN_append' true 4 _ _ (length_leBytes 4 _), Res.ok_bind, length_leBytes]
        by_cases h5 : k - 4 = 0
        · simp [h5]
        · obtain ⟨j, hj⟩ : ∃ j, k - 4 = j + 1 := ⟨k - 5, by omega⟩
          simp only [hj, List.take_succ_cons, toNat_ofNat_lt d hd, hm]
          rw [trunc_dec env hE v (.ref m) f j hw hf' (by omega)]
          simp

theorem trunc_decN (env : Env) (hE : EnvOk env) :
    (vs : List Val) → ∀ (t : Ty) (f k : Nat), wtList env t vs → Progress vs → rankList vs < f → k < (encList vs).length →
      decN (dec f env true t) vs.length ((encList vs).take k) = .err
  | [], _, _, k, _, _, _, hk => by simp [encList] at hk
  | v :: vs, t, f, k, h, hp, hf, hk => by
      simp only [wtList] at h
      simp only [rankList] at hf
      have h1 : rank v < f := by omega
      have h2 : rankList vs < f := by omega
      simp only [encList, List.length_append] at hk
      simp only [encList, List.length_cons, decN]
      by_cases hlt : k < (enc v).length
      · rw [take_append_lt _ _ k (by omega), trunc_dec env hE v t f k h.1 h1 hlt]; simp
      · rw [take_append_ge _ _ k (by omega), dec_enc env hE v t true f _ h.1 h1]
        simp only [Res.ok_bind]
        have hg : ¬ (((encList vs).take (k - (enc v).length)).length
            = (enc v ++ (encList vs).take (k - (enc v).length)).length ∧ loopSlack ≤ vs.length) := by
          intro ⟨hl, hs⟩
          simp only [List.length_append] at hl
          exact hp.head_guard ⟨by omega, hs⟩
        simp only [hg, if_false]
        rw [trunc_decN env hE vs t f (k - (enc v).length) h.2 hp.tail h2 (by omega)]; simp

theorem trunc_decEntries (env : Env) (hE : EnvOk env) :
    (kvs : List (Val × Val)) → ∀ (kt t : Ty) (f k : Nat) (acc : List (Val × Val)),
      wtKVs env kt t kvs → keysDistinct kt kvs → True → rankKVs kvs < f → k < (encKVs kvs).length →
      decEntries kt (dec f env true kt) (dec f env true t) kvs.length ((encKVs kvs).take k) acc = .err
  | [], _, _, _, k, _, _, _, _, _, hk => by simp [encKVs] at hk
  | (a, b) :: kvs, kt, t, f, k, acc, h, hd, _, hf, hk => by
      simp only [wtKVs] at h
      simp only [keysDistinct] at hd
      simp only [rankKVs] at hf
      have h1 : rank a < f := by omega
      have h2 : rank b < f := by omega
      have h3 : rankKVs kvs < f := by omega
      simp only [encKVs, List.length_append] at hk
      simp only [encKVs, List.length_cons, decEntries, List.append_assoc]
      by_cases hlt : k < (enc a).length
      · rw [take_append_lt _ _ k (by omega), trunc_dec env hE a kt f k h.1 h1 hlt]; simp
      · rw [take_append_ge _ _ k (by omega), dec_enc env hE a kt true f _ h.1 h1]
        simp only [Res.ok_bind]
        by_cases hlt2 : k - (enc a).length < (enc b).length
        · rw [take_append_lt _ _ _ (by omega), trunc_dec env hE b t f _ h.2.1 h2 hlt2]; simp
        · rw [take_append_ge _ _ _ (by omega), dec_enc env hE b t true f _ h.2.1 h2]
          simp only [Res.ok_bind]
          rw [trunc_decEntries env hE kvs kt t f (k - (enc a).length - (enc b).length) _ h.2.2 hd.2 trivial h3 (by omega)]

theorem trunc_decFields (env : Env) (hE : EnvOk env) :
    (fs : List Val) → ∀ (tys : List Ty) (f k : Nat), wtStruct env tys fs → rankList fs < f → k < (encList fs).length →
      decFields (dec f env true) tys ((encList fs).take k) = .err
  | [], _, _, k, _, _, hk => by simp [encList] at hk
  | _ :: _, [], _, _, h, _, _ => by simp [wtStruct] at h
  | v :: vs, t :: tys, f, k, h, hf, hk => by
      simp only [wtStruct] at h
      simp only [rankList] at hf
      have h1 : rank v < f := by omega
      have h2 : rankList vs < f := by omega
      simp only [encList, List.length_append] at hk
      simp only [encList, decFields]
      by_cases hlt : k < (enc v).length
      · rw [take_append_lt _ _ k (by omega), trunc_dec env hE v t f k h.1 h1 hlt]; simp
      · rw [take_append_ge _ _ k (by omega), dec_enc env hE v t true f _ h.1 h1]
        simp only [Res.ok_bind]
        rw [trunc_decFields env hE vs tys f (k - (enc v).length) h.2 h2 (by omega)]; simp

theorem trunc_decMsgLoop (env : Env) (hE : EnvOk env) :
    (fs : List (Nat × Val)) → ∀ (fds : List MsgField) (f k lo : Nat) (acc : List (Nat × Val)) (n : Nat),
      DefOk (.msg fds) → wtMsg env fds lo fs → rankFields fs < f → k < (encFields fs).length + 1 → k < n →
      decMsgLoop true (dec f env true) fds n ((encFields fs ++ [0]).take k) acc = .err
  | [], fds, f, k, lo, acc, n, _, _, _, hk, hn => by
      match n, hn with
      | n+1, _ =>
      simp only [encFields, List.length_nil] at hk
      have : k = 0 := by omega
      subst this
      simp [decMsgLoop]
  | (i, v) :: fs, fds, f, k, lo, acc, n, hok, h, hf, hk, hn => by
      match n, hn with
      | n+1, hn =>
      simp only [wtMsg] at h
      obtain ⟨hlo, hi, ⟨fd, hfd, _, hwv⟩, hrest⟩ := h
      simp only [rankFields] at hf
      have h1 : rank v < f := by omega
      have h2 : rankFields fs < f := by omega
      simp only [encFields, List.length_cons, List.length_append] at hk
      cases k with
      | zero => simp [decMsgLoop]
      | succ j =>
        simp only [encFields, List.cons_append, List.take_succ_cons, decMsgLoop, toNat_ofNat_lt i hi, hfd,
          List.append_assoc]
        by_cases hlt : j < (enc v).length
        · rw [take_append_lt _ _ j (by omega), trunc_dec env hE v fd.ty f j hwv h1 hlt]; simp
        · rw [take_append_ge _ _ j (by omega), dec_enc env hE v fd.ty true f _ hwv h1]
          simp only [Res.ok_bind]
          exact trunc_decMsgLoop env hE fs fds f (j - (enc v).length) i _ n hok hrest h2 (by omega) (by omega)
end


/-- Top-level message: `UnmarshalBebop` on a strict prefix. -/
theorem trunc_msgBody (env : Env) (hE : EnvOk env) (fs : List (Nat × Val)) (fds : List MsgField) (f k : Nat)
    (hok : DefOk (.msg fds)) (hw : wtMsg env fds 0 fs) (hsz : vsizeFields fs + 1 < 2^32)
    (hf : rankFields fs < f) (hk : k < (enc (.msg fs)).length) :
    decMsgBody (f+1) env true fds ((enc (.msg fs)).take k) = .err := by
  have hlen : (encFields fs).length + 1 < 2^32 := by rw [length_encFields]; exact hsz
  have henc : enc (.msg fs) = leBytes 4 ((encFields fs).length + 1) ++ (encFields fs ++ [0]) := by
    simp [enc]
  rw [henc] at hk ⊢
  simp only [List.length_append, length_leBytes, List.length_singleton] at hk
  by_cases h4 : k < 4
  · have : ((leBytes 4 ((encFields fs).length + 1) ++ (encFields fs ++ [0])).take k).length < 4 := by
      rw [length_take_lt _ _ (by simp; omega)]; exact h4
    simp [decMsgBody, readN_short _ _ this]
  · rw [take_append_ge _ _ k (by simp; omega)]
    simp only [decMsgBody, readN_append' true 4 _ _ (length_leBytes 4 _), Res.ok_bind, length_leBytes]
    have hk' : k - 4 < (encFields fs).length + 1 := by omega
    have hl2 : ((encFields fs ++ [0]).take (k - 4)).length = k - 4 := by
      rw [length_take_lt _ _ (by simp; omega)]
    rw [hl2, trunc_decMsgLoop env hE fs fds f (k - 4) 0 [] (k - 4 + 1) hok hw hf hk' (by omega)]
    simp

/-- Top-level union: `UnmarshalBebop` on a strict prefix. -/
theorem trunc_unionBody (env : Env) (hE : EnvOk env) (d : Nat) (v : Val) (brs : List (Nat × Nat)) (m f k : Nat)
    (hd : d < 256) (hm : brs.lookup d = some m) (hw : wt env (.ref m) v) (hsz : vsize v < 2^32)
    (hf : rank v < f) (hk : k < (enc (.union d v)).length) :
    decUnionBody (f+1) env true brs ((enc (.union d v)).take k) = .err := by
  have hlen : (enc v).length < 2^32 := by rw [length_enc]; exact hsz
  have henc : enc (.union d v) = leBytes 4 (enc v).length ++ (UInt8.ofNat d :: enc v) := by
    simp [enc]
  rw [henc] at hk ⊢
  simp only [List.length_append, length_leBytes, List.length_cons] at hk
  by_cases h4 : k < 4
  · have : ((leBytes 4 (enc v).length ++ (UInt8.ofNat d :: enc v)).take k).length < 4 := by
      rw [length_take_lt _ _ (by simp; omega)]; exact h4
    simp [decUnionBody, readN_short _ _ this]
  · rw [take_append_ge _ _ k (by simp; omega)]
    simp only [decUnionBody, readN_append' true 4 _ _ (length_leBytes 4 _), Res.ok_bind, length_leBytes]
    by_cases h5 : k - 4 = 0
    · simp [h5]
    · obtain ⟨j, hj⟩ : ∃ j, k - 4 = j + 1 := ⟨k - 5, by omega⟩
      simp only [hj, List.take_succ_cons, toNat_ofNat_lt d hd, hm]
      rw [trunc_dec env hE v (.ref m) f j hw hf (by omega)]
      simp

end Bebop
