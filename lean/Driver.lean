import Driver.Text
import Driver.Main
