#!/bin/bash
# Runs the repository's baseline suite (guard off) and prints pass/fail counts.
export GOFLAGS=-mod=mod GOPROXY=off GOSUMDB=off GOTOOLCHAIN=local
cd "${1:-/repo}" || exit 2
go test -json -vet=off -count=1 -timeout 25m ./... 2>&1 | python3 -c '
import sys, json
p=f=0; failed=[]
for l in sys.stdin:
    try: e=json.loads(l)
    except Exception: continue
    if e.get("Test"):
        if e["Action"]=="pass": p+=1
        elif e["Action"]=="fail": f+=1; failed.append(e["Package"]+"::"+e["Test"])
    elif e.get("Action")=="fail": failed.append("PKG "+e.get("Package","?"))
print("pass=%d fail=%d"%(p,f))
for x in failed: print("FAILED", x)
sys.exit(0 if f==0 and not failed and p>=340 else 1)
'
