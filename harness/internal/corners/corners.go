// Package corners holds hand-written schema texts around constructs that the repository's fixtures and the
// generators rarely combine. The text engine runs them through ReadFile / Format against the model; the cli engine
// runs the accepted ones through bebopfmt -w.
package corners

import "strings"

// Texts: small schemas around constructs that are rare in the fixtures.
func Texts() []string {
	long := func(n int) string { return strings.Repeat("long comment text ", n/18+1)[:n] }
	out := []string{
		// attributes on union branches
		"union U {\n\t1 -> struct A {\n\t\tint32 x;\n\t}\n\t[deprecated(\"use A\")]\n\t2 -> struct B {\n\t}\n\t[deprecated(\"gone\")]\n\t3 -> message C {\n\t\t1 -> string s;\n\t}\n}\n",
		"// doc of U\nunion U {\n\t// doc of A\n\t[deprecated(\"a\")]\n\t1 -> struct A { int32 x; }\n\t/* block doc of B */\n\t[deprecated(\"b\")]\n\t2 -> message B { 1 -> int32 y; }\n}\n",
		// multi-line block comments in every kind of body, and in the bodies of union members
		"enum E {\n\t/* first line\n\t   second line */\n\tA = 1;\n}\nstruct S {\n\t/* first line\n\t   second line */\n\tint32 x;\n}\nmessage M {\n\t/* first line\n\t   second line */\n\t1 -> int32 x;\n}\n",
		"union U {\n\t1 -> struct A {\n\t\t/* first line\n\t\t   second line */\n\t\tint32 x;\n\t}\n\t2 -> message B {\n\t\t/* first line\n\t\t   second line\n\t\t   third line */\n\t\t1 -> int32 y;\n\t}\n}\n",
		"/* top\n   level\n   block */\nstruct S {\n\tint32 x; /* after\n field */\n\tint32 y;\n}\n",
		// [flags] expressions with unbalanced parentheses, and the attribute on a line of its own under a doc comment
		"[flags]\nenum E {\n\tA = (1;\n}\n",
		"[flags]\nenum E {\n\tA = 1;\n\tB = ((A | 2);\n}\n",
		"[flags]\nenum E {\n\tA = 1);\n}\n",
		"[flags]\nenum E {\n\tA = (1 << (2);\n\tB = ();\n}\n",
		"// what a caller may do\n[flags]\nenum Perm {\n\tRead = 1;\n\tWrite = 2;\n}\n",
		"/* what a caller may do */\n[flags]\nenum Perm : uint8 {\n\tRead = 1;\n}\n// next\n[opcode(0x1)]\nstruct S {\n}\n",
		// a comment between the [flags] attribute and its enum; expressions of several tokens
		"[flags]\n// what a caller may do\nenum Perm {\n\tRead = 1;\n\tWrite = 1 << 1;\n\tRW = Read | Write;\n}\n",
		"[flags]\n/* block */\nenum Perm : uint8 {\n\tA = (1 | 2) & 3;\n}\nenum Plain {\n\tX = 1;\n}\n[flags]\n\n// after an empty line\nenum Q {\n\tB = 1 << 2 << 1;\n}\n",
		// signed shifts and wide values in [flags]
		"[flags]\nenum Mask : int64 {\n\tLow = -16;\n\tShifted = Low >> 2;\n\tLiteral = -64 >> 1;\n}\n[flags]\nenum M32 : int32 {\n\tLow = -16;\n\tShifted = Low >> 2;\n}\n",
	}
	out = append(out,
		// octal literals (a leading zero changes the base)
		"enum Mode : uint16 {\n\tDefault = 0755;\n\tSticky = 01000;\n\tSeven = 07;\n\tZero = 0;\n}\n",
		"[flags]\nenum Perm : uint16 {\n\tSticky = 01000;\n\tBoth = Sticky | 02000;\n\tHex = 0x10;\n}\nmessage M {\n\t010 -> int32 ten;\n\t7 -> int32 seven;\n}\n",
		// empty lines after comments and fields inside bodies
		"struct S {\n\tint32 a;\n\t// second group\n\n\n\tint32 b;\n\n\n\n\tint32 c; // trailing\n\n\n\tint32 d;\n}\n",
		"message M {\n\t1 -> int32 a;\n\n\t// doc\n\n\n\t2 -> int32 b;\n}\nunion U {\n\t1 -> struct A {\n\t\t// c\n\n\n\t\tint32 x;\n\t}\n}\n",
		"const int32 limit = 10;\n// A is documented\nstruct A {\n\tint32 x;\n}\nconst int32 other = 1; // same line\n\n// doc of B\n\nstruct B {\n}\n",
		// block comments after the last token of a line, as the very last thing of the input
		"const int32 x = 1; /* trailing */\n",
		"struct S {\n\tint16 f; /* don't */ /* do */ /* this */\n}\nconst bool b = true; /* one */ /* two */",
		"message M {\n\t1 -> int32 a; /* after a */\n}\nunion U {\n\t1 -> struct A {\n\t} /* after member */\n} /* after union */\n",
		// identifiers beyond ASCII
		"enum Gr\u00f6\u00dfe {\n\tKlein = 1;\n}\nstruct Caf\u00e9 {\n\tint32 se\u00f1al;\n\tGr\u00f6\u00dfe g;\n}\nmessage \u03a9mega {\n\t1 -> Caf\u00e9 c;\n}\n",
	)
	for _, n := range []int{4000, 4090, 4097, 4200, 9000} {
		out = append(out,
			"// "+long(n)+"\nstruct S {\n\tint32 x;\n}\nstruct T {\n\tS s;\n}\n",
			"struct S {\n\tint32 x; // "+long(n)+"\n\t// "+long(n/2)+"\n\tint32 y;\n}\nmessage M {\n\t1 -> int32 z;\n}\n",
			"/* "+long(n)+" */\nenum E {\n\tA = 1;\n}\n")
	}
	return out
}
